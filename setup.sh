#!/bin/bash
# Offline self-check of the verification tool-chain; builds nothing.
cd "$(dirname "$0")"
set -e
python3-vt -c "import z3, cvc5; print('z3', z3.get_version_string(), 'cvc5', cvc5.__version__)"
/usr/bin/cvc5 --version | head -1
z3-new --version
/venv/bin/python -c "import sys; sys.path.insert(0, '/repo/python'); import pydiffx; print('pydiffx importable')"
if [ -f tools/difftest.py ]; then
  PYTHONPATH="$PWD" python3-vt tools/difftest.py
fi
