"""C01 - streaming write -> read round trip."""
import json
import sys

from props.common import Check, native
from pyvc import verify, smt
from contracts import writer as W, reader_iter
from contracts import reader_process as RP
from specs import sections as SP


def build(tag):
    eng = verify.Engine()
    kind, val = tag.split(':', 1)
    if kind == 'prep':
        W.register(eng, val, own_prepare=True)
    elif kind == 'pc':
        RP.register_process(eng)
    elif kind == 'rc':
        RP.register_read(eng, with_short_read=False)
    elif kind == 'it':
        reader_iter.register(eng, val)
    else:
        W.register(eng, val if val != '-' else None)
    return eng


def main():
    chk = Check('C01')
    if chk.replay_file:
        rp = json.load(open(chk.replay_file))
        print(json.dumps(rp.get('witness'), indent=1)[:3000])
        return 1
    jobs = [(W.QN + '_prepare_content', 'prep:' + p)
            for p in ('diffx', '.change', '..file')]
    jobs += [(RP.PC, 'pc:-'), (RP.RC, 'rc:-')]
    for prev in SP.NINE:
        for m in ('write_preamble', 'write_meta', 'write_diff'):
            jobs.append((W.QN + m, 'w:' + prev))
    jobs += [(reader_iter.NAME, 'it:' + v) for v in SP.NINE]
    chk.verify_parallel(build, jobs, timeout_s=30, procs=14)
    # composition lemmas over the contracts (no code)
    from contracts import lemmas_content
    for oid, asserts, text in lemmas_content.lemmas():
        chk.add_smt_obligation('lemma.' + oid, asserts, describe=text)
    chk.trusted += [
        'LEAVES proved here: writer content methods and _prepare_content '
        '(Prepare), _read_content / _process_content (Recover), '
        'iter_sections (framing, encoding scope); header round trip in C11, '
        'order agreement in C09/C10, chunking in C17, codec facts in C15',
        'The ROOT statement (records(read(write(calls))) == calls, for '
        'every call sequence) is NOT machine-checked as one invariant.  Of '
        'the composition lemmas, the per-line indent/strip inverse '
        '(lemma.indent_strip_inverse, with B7: a word of " "* consists of '
        'spaces) is discharged here; that splitting the indented block '
        'yields the indented lines, newline agreement and '
        'append-missing-newline are argued in DESIGN.md and exercised by '
        'the bounded layer only',
        'A-codec: decode(encode(t)) == t for stateless codecs; A-json']
    state = {}

    def run_bounded(n, lim):
        return native('C02', {'op': 'bounded', 'seed': chk.seed, 'random': n,
                              'limit': lim, 'bytes': False,
                              'records': True}, timeout=3000)

    def find(oid, status, model):
        if 'r' not in state:
            state['r'] = run_bounded(1500, 600)
        w = state['r']['witness']
        return {'witness': w, 'native': w} if w else None
    chk.handle_failed(find, function='writer+reader')
    if not chk.violations:
        if 'r' not in state or chk.tier != 'quick':
            q = chk.tier == 'quick'
            state['r'] = run_bounded(3000 if q else 80000,
                                     1500 if q else 100000)
        r = state['r']
        chk.bounded.append({
            'what': 'call sequences (0-1 main preamble/meta, 1-3 changes, '
                    '1-3 files, texts that look like headers / hunks / BOMs '
                    '/ NUL / lone CR / CRLF, 9 codec spellings incl. UTF-16 '
                    'and UTF-32 with and without BOM, indent 0-7, '
                    'line_endings unset/unix/dos, mimetype, diff type) '
                    'written by the real writer and read by the real reader; '
                    'records compared with the records known from the calls '
                    '(ids, levels, logical lines, options given or derived, '
                    'content with a missing final newline appended)',
            'bound': '%d sequences' % r['evaluations'],
            'evaluations': r['evaluations'],
            'distinct_nontrivial': r['evaluations']})
        if r['witness']:
            chk.report_violation('bounded.round_trip',
                                 {'witness': r['witness']}, True,
                                 what=r['witness']['error'][:300])
    return chk.finish(
        'other',
        'Deductive part = the leaves: what the writer puts into a content '
        'section (Prepare: encode, append the missing newline of the '
        'declared/detected kind, indent after encoding, length = len(block)) '
        'and what the reader makes of exactly `length` bytes (Recover: same '
        'newline, split, strip, decode, newline check, line counter), each '
        'verified for all inputs against its contract.  The end-to-end '
        'statement is covered by the bounded layer.')


if __name__ == '__main__':
    sys.exit(main())
