"""C16 - split_lines is lossless and its two modes agree."""
import json
import sys

from props.common import Check, native
from pyvc import verify, smt
from contracts import text_split


def build(tag):
    eng = verify.Engine()
    text_split.register(eng, [text_split.NEWLINES[int(tag)]])
    return eng


def main():
    chk = Check('C16')
    if chk.replay_file:
        rp = json.load(open(chk.replay_file))
        out = native('C16', {'op': 'replay', 'witness': rp['witness']})
        print(json.dumps(out, indent=1))
        return 0 if out['ok'] else 1
    jobs = [(text_split.NAME, str(i))
            for i in range(len(text_split.NEWLINES))]
    chk.verify_parallel(build, jobs, timeout_s=40)
    chk.add_lean_obligation(
        'lemma.seq', 'lemmas/SeqFacts.lean', ['B4', 'B5'],
        'sequence facts used as axioms by the split_lines VCs')
    chk.trusted += [
        'A-bytes B1-B3, B6: facts about bytes.split assumed by the model '
        '(len = count+1; no piece contains the separator; join(split) = id; '
        'for an unbordered separator: endswith <=> last piece empty) - '
        'differential-tested in setup_cmd, not proved',
        'B4/B5: ConcatAll(map(+nl, S)) == Join(nl, S) + nl and the snoc '
        'unfolding of ConcatAll - facts about concatenation instantiated at '
        'the path terms; PROVED by induction in Lean 4 on every run '
        '(lemmas/SeqFacts.lean, obligations lemma.seq.B4 / lemma.seq.B5, '
        'kernel-checked, standard axioms only); what stays trusted is that '
        'the Lean definitions concatAll / join say what b\'\'.join and '
        'nl.join do (three-line recursive definitions, differential-tested)',
        'newline ranges over the 10 byte strings C16 names (each is a '
        'separate instance of the proof)']
    failed = chk.failed_obligations()
    bounded = None
    if failed:
        bounded = native('C16', {'op': 'bounded', 'maxlen': 5,
                                 'seed': chk.seed, 'random': 20000})
        for oid, status, model, raw, ob in failed:
            w = bounded['witness']
            found = w is not None
            if status == smt.SAT or found:
                chk.report_violation(oid, {
                    'function': text_split.NAME, 'status': status,
                    'witness': w, 'solver_output': raw[:3000],
                    'model': {k: repr(v) for k, v in model.items()}},
                    found_input=found, what='%s is %s' % (oid, status))
    if not chk.violations:
        if bounded is None:
            bounded = native('C16', {
                'op': 'bounded', 'maxlen': 6 if chk.tier == 'quick' else 8,
                'seed': chk.seed,
                'random': 20000 if chk.tier == 'quick' else 300000},
                timeout=3000)
        chk.bounded.append({
            'what': 'all byte strings over {CR, LF, NUL, space, a} x the 10 '
                    'newlines, the four clauses of the statement checked by '
                    'an independent scanner; plus random longer strings',
            'bound': 'length <= %d exhaustive' % (
                6 if chk.tier == 'quick' else 8),
            'evaluations': bounded['evaluations'],
            'distinct_nontrivial': bounded['exhaustive_cases'],
            'exhaustive': True})
        if bounded['witness']:
            chk.report_violation('bounded.split_lines', {
                'witness': bounded['witness'], 'function': text_split.NAME},
                found_input=True, what=bounded['witness']['error'])
    return chk.finish(
        'proof',
        'split_lines verified against its contract for every non-empty byte '
        'string and each of the 10 newline sequences: count, losslessness, '
        'exact termination of every line, clean last line, and agreement of '
        'the two modes with the abstract Split; exception freedom (asserts, '
        'pop, index).')


if __name__ == '__main__':
    sys.exit(main())
