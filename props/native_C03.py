"""Native side of C03: well-formed files from an independent, spec-derived
generator (foreign-producer variations) with records known by construction,
and every single-defect mutation of a catalogue of spec violations."""
import io
import json
import random
import signal
import sys

from pydiffx.errors import DiffXParseError
from pydiffx.reader import DiffXReader

from props.native_spec import enc_nl, split_keep, NLTEXT

CODECS = ['utf-8', 'latin-1', 'utf-16', 'utf-16-le', 'utf-32-be', 'ascii']
TEXTS = ['hello\nworld\n', 'one line\n', 'a\r\nb\r\n', '#.change:\n text\n',
         '  indented\n\n    more\n', 'café ☃\n', 'x' * 150 + '\ny\n',
         # LF on the first line, CRLF later: first-line detection says unix
         'x\ny\r\nz\n']
DIFFS = [b'--- a\n+++ b\n@@ -1 +1 @@\n-old\n+new\n', b'binary\x00\x01\n',
         b'a\r\nb\r\n', b'#...diff: length=3\n', b'l1\nl2\r\nl3\n']


class Builder(object):
    def __init__(self, rng, crlf):
        self.rng = rng
        self.hnl = b'\r\n' if crlf else b'\n'
        self.out = []
        self.records = []
        self.line = 0
        self.eff = []
        self.header_spans = []   # (record index, byte offset of header)

    def pos(self):
        return sum(len(x) for x in self.out)

    def blank(self):
        r = self.rng
        if r.random() < .3:
            for _ in range(r.randrange(1, 3)):
                self.out.append(r.choice([b'', b' ', b'\t']) + self.hnl)

    def emit_header(self, sid, opts):
        items = [(k, v) for k, v in opts.items() if v is not None]
        self.rng.shuffle(items)
        s = '#%s:' % sid
        if items:
            s += ' ' + ', '.join('%s=%s' % kv for kv in items)
        self.header_spans.append((len(self.records), self.pos()))
        self.out.append(s.encode('ascii') + self.hnl)

    def rec(self, sid, opts, **content):
        level = len(sid) - len(sid.lstrip('.'))
        r = {'level': level, 'line': self.line,
             'options': {k: v for k, v in opts.items() if v is not None},
             'section': sid, 'type': sid.lstrip('.')}
        r.update(content)
        self.records.append(r)

    def container(self, sid, level, encoding=None, **extra):
        self.blank()
        parent = self.eff[level - 1] if level > 0 else None
        self.eff = self.eff[:level] + [encoding or parent]
        opts = dict(extra, encoding=encoding)
        self.emit_header(sid, opts)
        self.rec(sid, opts)
        self.line += 1

    def content(self, sid, kind, value, inherit=True):
        r = self.rng
        self.blank()
        own = r.choice(CODECS) if r.random() < .3 else None
        eff = own or (self.eff[-1] if inherit else None)
        opts = {'encoding': own}
        if kind == 'diff':
            if own:
                # a diff that declares an encoding is text in that encoding
                value = '--- a\n+++ b\n@@ -1 +1 @@\n-é\n+e\n'.encode(own) \
                    if own != 'ascii' else b'--- a\n+++ b\n'
            data = value
            le = 'dos' if data.startswith(b'a\r\n') else 'unix'
            nl = enc_nl(eff, le)
        else:
            if kind == 'meta':
                style = r.randrange(3)
                obj = value
                text = json.dumps(obj) if style == 0 else \
                    json.dumps(obj, indent=2) if style == 1 else \
                    json.dumps(obj, indent=4, sort_keys=True,
                               separators=(',', ': '))
                text += '\n'
                le = 'unix'
                if r.random() < .5:
                    opts['format'] = 'json'
            else:
                text = value
                le = 'dos' if text.startswith('a\r\n') else 'unix'
            try:
                data = text.encode(eff)
            except UnicodeError:
                text = 'plain\n'
                data = text.encode(eff)
                le = 'unix'
            nl = enc_nl(eff, le)
        declare_le = r.random() < .5
        if declare_le:
            opts['line_endings'] = le
        indent = None
        if kind == 'preamble' and r.random() < .6:
            indent = r.choice([0, 2, 4])
            opts['indent'] = indent
            if indent:
                data = b''.join(b' ' * indent + l
                                for l in split_keep(data, nl))
        if kind == 'diff' and not own and r.random() < .4:
            opts['type'] = r.choice(['text', 'binary'])
        if kind == 'preamble' and r.random() < .3:
            opts['mimetype'] = r.choice(['text/plain', 'text/markdown'])
        opts['length'] = len(data)
        self.emit_header(sid, opts)
        self.out.append(data)
        nlines = len(split_keep(data, nl))
        if kind == 'meta':
            self.rec(sid, opts, metadata=value)
        elif kind == 'preamble':
            self.rec(sid, opts, text=text)
        else:
            self.rec(sid, opts, diff=value)
        self.line += 1 + nlines


def make_file(rng):
    b = Builder(rng, crlf=rng.random() < .3)
    main_enc = rng.choice(CODECS + ['utf-8', 'utf-8'])
    b.container('diffx', 0, encoding=main_enc, version='1.0')
    if rng.random() < .5:
        b.content('.preamble', 'preamble', rng.choice(TEXTS))
    if rng.random() < .5:
        b.content('.meta', 'meta', {'k': rng.choice(TEXTS), 'n': 1})
    for c in range(rng.randrange(1, 3)):
        b.container('.change', 1,
                    encoding=rng.choice(CODECS) if rng.random() < .3
                    else None)
        if rng.random() < .5:
            b.content('..preamble', 'preamble', rng.choice(TEXTS))
        if rng.random() < .6:
            b.content('..meta', 'meta', {'id': 'c%d' % c})
        for f in range(rng.randrange(1, 3)):
            b.container('..file', 2,
                        encoding=rng.choice(CODECS) if rng.random() < .3
                        else None)
            b.content('...meta', 'meta', {'path': 'f%d' % f,
                                          'x': [1, None, True]})
            if rng.random() < .7:
                b.content('...diff', 'diff', rng.choice(DIFFS),
                          inherit=False)
    return b


class Timeout(Exception):
    pass


def _alarm(s, f):
    raise Timeout()


def read(data):
    signal.signal(signal.SIGALRM, _alarm)
    signal.alarm(5)
    try:
        try:
            return list(DiffXReader(io.BytesIO(data))), None
        except DiffXParseError as e:
            return None, ('parse-error', e.linenum)
        except Exception as e:  # noqa
            return None, ('other', '%s: %s' % (type(e).__name__, e))
    finally:
        signal.alarm(0)


def norm(rec):
    r = dict(rec)
    if 'diff' in r and isinstance(r['diff'], str):
        r['diff'] = r['diff']
    return r


def defects(b, rng):
    """Single spec violations with the line of the offending section."""
    data = b''.join(b.out)
    out = []
    lines = data.split(b.hnl)
    # locate header lines (those we emitted) by offset
    for ridx, off in b.header_spans:
        rec = b.records[ridx]
        end = data.index(b.hnl, off)
        hdr = data[off:end]
        sid = rec['section']
        line = rec['line']

        def repl(new):
            return data[:off] + new + data[end:]
        if sid == 'diffx':
            out.append(('unsupported version', repl(hdr.replace(
                b'version=1.0', b'version=2.0')), line))
            if b'version=1.0, ' in hdr:
                out.append(('missing version', repl(hdr.replace(
                    b'version=1.0, ', b'')), line))
            elif b', version=1.0' in hdr:
                out.append(('missing version', repl(hdr.replace(
                    b', version=1.0', b'')), line))
        if 'length' in rec['options']:
            n = rec['options']['length']
            h2 = hdr.replace(b', length=%d' % n, b'').replace(
                b'length=%d, ' % n, b'').replace(b' length=%d' % n, b'')
            if h2 != hdr and b'length' not in h2:
                out.append(('missing length', repl(h2), line))
            if b'line_endings=' in hdr:
                out.append(('unknown line_endings', repl(
                    hdr.replace(b'line_endings=unix', b'line_endings=mac')
                    .replace(b'line_endings=dos', b'line_endings=mac')),
                    line + 1))
        if sid.endswith('meta'):
            if b'format=json' in hdr:
                out.append(('format other than json', repl(hdr.replace(
                    b'format=json', b'format=yaml')), line))
    return out


def bounded(seed, nfiles):
    rng = random.Random(seed)
    evals = 0
    ndef = 0
    for _ in range(nfiles):
        b = make_file(rng)
        data = b''.join(b.out)
        evals += 1
        got, err = read(data)
        if err or [norm(r) for r in got] != b.records:
            first = None
            if got:
                for a, c in zip(got, b.records):
                    if a != c:
                        first = (a, c)
                        break
            return {'evaluations': evals, 'defects': ndef, 'witness': {
                'file': data.hex(), 'error': 'well-formed file: %r %r' % (
                    err, first)}}
        for name, mod, line in defects(b, rng):
            evals += 1
            ndef += 1
            got, err = read(mod)
            if err is None or err[0] != 'parse-error':
                return {'evaluations': evals, 'defects': ndef, 'witness': {
                    'file': mod.hex(),
                    'error': 'defect "%s" not rejected with a parse error: '
                             '%r' % (name, err)}}
            if err[1] != line:
                return {'evaluations': evals, 'defects': ndef, 'witness': {
                    'file': mod.hex(),
                    'error': 'defect "%s": parse error at line %r, the '
                             'offending section is at line %r' % (
                                 name, err[1], line)}}
    return {'evaluations': evals, 'defects': ndef, 'witness': None}


def main():
    req = json.load(sys.stdin)
    if req['op'] == 'replay':
        got, err = read(bytes.fromhex(req['witness']['file']))
        out = {'ok': False, 'observed': repr(err) if err else
               '%d records' % len(got), 'claimed': req['witness']['error']}
    else:
        out = bounded(req['seed'], req['files'])
    json.dump(out, sys.stdout)


if __name__ == '__main__':
    main()
