"""Shared native generators of DiffX files (writer-produced and hand-made)."""
import io
import random

from pydiffx.writer import DiffXWriter

TEXTS = ['hello\nworld', '#.change:\n@@ -1 +1 @@\n', 'x' * 130 + '\ny',
         'a\r\nb\r\n', '\n\n\n', 'tail', 'wörld ☃\n', '﻿bom',
         'nul\x00byte\n', 'lone\rcr', '  indented\n    more\n',
         '#diffx: version=1.0\n', '਀\u000a', 'a\nb\r\nc',
         # no LF at all, ends in CR (classic Mac); LF first, CRLF later
         'mac\rtext\r', 'first\nsecond\r\nthird\n']
DIFFS = [b'--- a\n+++ b\n@@ -1 +1 @@\n-old\n+new\n',
         b'@@ -1,2 +1,2 @@\n a\n-b\n+c\n\\ No newline at end of file',
         b'\x00\x01\xff\xfe binary', b'#...diff: length=5\n', b'x\r\ny\r\n',
         b'Binary files differ\n', b'old mac\rfile\r',
         b'l1\nl2\r\nl3\n']
ENCODINGS = [None, 'utf-8', 'utf-16', 'utf-16-le', 'utf-32-be', 'latin-1',
             'utf-8-sig', 'UTF-16', 'utf_32', 'utf16', 'U16', 'U32', 'utf8',
             'cp1252', 'L1']


def encodable(text, enc):
    try:
        text.encode(enc or 'utf-8')
        return True
    except UnicodeError:
        return False


def random_calls(rng, encodings=ENCODINGS, texts=TEXTS, diffs=DIFFS):
    """A well-ordered call sequence: list of (method, args, kwargs)."""
    calls = []

    def enc():
        return rng.choice(encodings) if rng.random() < .4 else None

    def pre(scope_ok=True):
        kw = {}
        if rng.random() < .5:
            kw['indent'] = rng.choice([0, 1, 2, 4, 7])
        if rng.random() < .4:
            kw['line_endings'] = rng.choice(['unix', 'dos'])
        if rng.random() < .3:
            kw['mimetype'] = rng.choice(['text/plain', 'text/markdown'])
        e = enc()
        if e:
            kw['encoding'] = e
        return ('write_preamble', [rng.choice(texts)], kw)

    def meta(i):
        kw = {}
        e = enc()
        if e:
            kw['encoding'] = e
        return ('write_meta', [{'k%d' % i: rng.choice(texts),
                                'n': rng.randrange(100),
                                'nested': {'a': [1, 2, None, True]}}], kw)
    main_enc = rng.choice(['utf-8', 'utf-8', 'utf-16', 'latin-1', 'utf-32'])
    calls.append(('__init__', [], {'encoding': main_enc}))
    if rng.random() < .5:
        calls.append(pre())
    if rng.random() < .5:
        calls.append(meta(0))
    for c in range(rng.randrange(1, 4)):
        kw = {}
        e = enc()
        if e:
            kw['encoding'] = e
        calls.append(('new_change', [], kw))
        if rng.random() < .5:
            calls.append(pre())
        if rng.random() < .6:
            calls.append(meta(c))
        for f in range(rng.randrange(1, 4)):
            kw = {}
            e = enc()
            if e:
                kw['encoding'] = e
            calls.append(('new_file', [], kw))
            calls.append(meta(f))
            if rng.random() < .7:
                kw = {}
                if rng.random() < .3:
                    kw['line_endings'] = rng.choice(['unix', 'dos'])
                if rng.random() < .3:
                    kw['diff_type'] = rng.choice(['text', 'binary'])
                if rng.random() < .2:
                    kw['encoding'] = rng.choice(['utf-8', 'latin-1',
                                                 'utf-16-le'])
                calls.append(('write_diff', [rng.choice(diffs)], kw))
    return calls


def run_calls(calls):
    """Returns bytes, or raises whatever the writer raises."""
    fp = io.BytesIO()
    w = None
    for name, args, kw in calls:
        if name == '__init__':
            w = DiffXWriter(fp, **kw)
        else:
            getattr(w, name)(*args, **kw)
    return fp.getvalue()


def random_file(rng, **kw):
    """(calls, bytes) for a call sequence the writer accepts."""
    for _ in range(50):
        calls = random_calls(rng, **kw)
        try:
            return calls, run_calls(calls)
        except (UnicodeError, LookupError):
            continue
    raise RuntimeError('could not generate an acceptable call sequence')
