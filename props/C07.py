"""C07 - length frames content; truncated / damaged files never yield altered
sections."""
import json
import sys

from props.common import Check, native
from pyvc import verify, smt
from contracts import reader_until, reader_header, reader_iter
from contracts import reader_process as RP
from specs import sections as SP


def build(tag):
    eng = verify.Engine()
    kind, val = tag.split(':', 1)
    if kind == 'it':
        reader_iter.register(eng, val)
    elif kind == 'rc':
        RP.register_read(eng)
    elif kind == 'pc':
        RP.register_process(eng)
    elif kind == 'ru':
        reader_until.register(eng)
    return eng


def main():
    chk = Check('C07')
    if chk.replay_file:
        rp = json.load(open(chk.replay_file))
        out = native('C07', {'op': 'replay', 'witness': rp['witness']})
        print(json.dumps(out, indent=1))
        return 0 if out['ok'] else 1
    jobs = [(reader_until.NAME, 'ru:-'), (RP.RC, 'rc:-'), (RP.PC, 'pc:-')]
    jobs += [(reader_iter.NAME, 'it:' + v) for v in SP.NINE]
    chk.verify_parallel(build, jobs, timeout_s=30, procs=13)
    chk.trusted += [
        'A-io: read(n) returns data[pos:pos+n] (fewer at the end of the '
        'data) and advances by what it returned',
        '(e)/(f) of DESIGN 5/C07 - the relational statement "records of a '
        'prefix of the file are a prefix of the records" - is NOT proved '
        'deductively (whole-history, two-run property); it is covered by '
        'the bounded layer only',
        '_read_header contract assumed in iter_sections (C10/C11 checks)']
    # the known finding must still reproduce natively (else say so)
    kn = native('C07', {'op': 'known'})
    if not kn['reproduces']:
        chk.notes.append('known finding short-read no longer reproduces')
        print('NOTE: known finding C07#short-read no longer reproduces')
    state = {}

    def run_bounded(files, step):
        return native('C07', {'op': 'bounded', 'seed': chk.seed,
                              'files': files, 'step': step}, timeout=3000)

    def find(oid, status, model):
        if 'short_read_detected' in oid:
            return {'witness': {'known': True}, 'native': kn,
                    'witness_class': 'short-read'}
        if 'r' not in state:
            state['r'] = run_bounded(6, 1)
        w = state['r']['witness']
        return {'witness': w, 'native': w} if w else None
    chk.handle_failed(find, function='reader')
    if not chk.violations:
        if 'r' not in state or chk.tier != 'quick':
            q = chk.tier == 'quick'
            state['r'] = run_bounded(8 if q else 120, 1)
        r = state['r']
        chk.bounded.append({
            'what': 'writer-produced files x every truncation point '
                    '0..len(file): records must be a prefix of the intact '
                    'file\'s, ending normally or with DiffXParseError; and '
                    'every length option perturbed by +-1..3, negated, '
                    'non-numeric, huge, zero',
            'bound': '%d files, every cut' % (8 if chk.tier == 'quick'
                                              else 120),
            'evaluations': r['evaluations'],
            'distinct_nontrivial': r['evaluations'],
            'known_finding_cases': r['known'], 'sample': r.get('sample')})
        if r['known']:
            k = chk.match_known('bounded.truncation', 'short-read')
            if k:
                chk.known_hits.append((k, 'bounded.truncation'))
        if r['witness']:
            chk.report_violation('bounded.truncation_other',
                                 {'witness': r['witness']}, True,
                                 what=r['witness']['error'])
    return chk.finish(
        'other',
        'Proved (all paths): iter_sections hands _read_content only a '
        'length that is an int in [0, sys.maxsize] (anything else is a '
        'DiffXParseError at the header line); _read_content consumes '
        'exactly min(length, available) bytes from the position '
        '_read_until left, whatever they contain, and leaves the data '
        'untouched; _process_content does not touch the stream.  KNOWN '
        'FINDING: obligation short_read_detected (a read shorter than '
        'length never yields a record) is sat on the pinned tree and cannot '
        'be repaired without contradicting a pinned test.  The relational '
        'prefix statement over truncations is bounded only.',
        extra_cov={'explanation_short': 'all obligations but the known '
                   'finding discharged; prefix property bounded'})


if __name__ == '__main__':
    sys.exit(main())
