"""Native side of C08: any bytes -> records or a positioned parse error."""
import collections
import io
import json
import random
import signal
import sys

from pydiffx.dom import DiffX
from pydiffx.errors import BaseDiffXError, DiffXParseError
from pydiffx.reader import DiffXReader

from props.native_gen import random_file

TOK = [b'length=abc', b'length=-1', b'length=0', b'indent=abc', b'indent=-2',
       b'encoding=nope', b'encoding=123', b'line_endings=mac',
       b'line_endings=5', b'format=xml', b'version=2',
       b'length=99999999999999999999', b'encoding=base64',
       b'encoding=utf-16', b'indent=5000000000', b'length=1e3',
       b'encoding=idna', b'encoding=punycode', b'encoding=undefined',
       b'encoding=unicode_escape', b'encoding=utf-7', b'encoding=charmap',
       b'indent=1', b'line_endings=dos', b'encoding=hex', b'encoding=rot13',
       b'type=5', b'mimetype=x', b'foo=bar']
# container-header options that name object-model attributes (known finding)
ATTR_NAMES = [b'meta', b'preamble', b'diff', b'files', b'changes', b'options',
              b'subsections', b'meta_section', b'preamble_section',
              b'diff_section', b'section_id', b'_level', b'meta_encoding',
              b'meta_format', b'preamble_encoding', b'preamble_indent',
              b'preamble_line_endings', b'preamble_mimetype', b'diff_type',
              b'diff_encoding', b'diff_line_endings', b'section_name',
              b'default_options', b'generate_stats', b'add_file',
              b'add_change']


class Timeout(Exception):
    pass


def _alarm(signum, frame):
    raise Timeout()


def mutate(b, rng):
    if len(b) < 2:
        return b
    k = rng.randrange(7)
    if k == 0:
        i = rng.randrange(len(b))
        return b[:i] + bytes([rng.randrange(256)]) + b[i + 1:]
    if k == 1:
        i = rng.randrange(len(b))
        return b[:i] + b[i + 1:]
    if k in (2, 6):
        lines = b.split(b'\n')
        hs = [i for i, l in enumerate(lines) if l.startswith(b'#')]
        if not hs:
            return b
        i = rng.choice(hs)
        l = lines[i]
        t = rng.choice(TOK)
        key = t.split(b'=')[0]
        parts = l.split(b': ', 1)
        if len(parts) == 2:
            opts = [o for o in parts[1].split(b', ')
                    if not o.startswith(key + b'=')] + [t]
            l = parts[0] + b': ' + b', '.join(sorted(set(opts)))
        else:
            l = l + b' ' + t
        lines[i] = l
        return b'\n'.join(lines)
    if k == 3:
        return b[:rng.randrange(len(b))]
    if k == 4:
        return b.replace(b'\n', b'\r\n', rng.randrange(1, 4))
    i = rng.randrange(len(b))
    j = rng.randrange(len(b))
    return b[:i] + b[j:]


def is_known_dom(data):
    """Known finding C08#dom-attribute-options: a #.change / #..file header
    carries an option whose key names an attribute of the object model."""
    for line in data.split(b'\n'):
        line = line.rstrip(b'\r')
        if line.startswith((b'#.change:', b'#..file:')):
            opts = line.split(b':', 1)[1]
            for pair in opts.split(b','):
                key = pair.strip().split(b'=')[0]
                if key in ATTR_NAMES:
                    return True
    return False


def check_one(data):
    """Returns (failure dict or None, known: bool)."""
    nlines = data.count(b'\n') + 1
    signal.signal(signal.SIGALRM, _alarm)
    signal.alarm(5)
    try:
        try:
            list(DiffXReader(io.BytesIO(data)))
        except DiffXParseError as e:
            if not (isinstance(e.linenum, int) and 0 <= e.linenum <= nlines):
                return {'where': 'reader', 'error':
                        'parse error line %r outside the input (%d lines)'
                        % (e.linenum, nlines)}, False
            msg = str(e)
            exp = 'Error on line %d' % (e.linenum + 1)
            if e.column is not None:
                exp += ', column %d' % (e.column + 1)
            if not msg.startswith(exp + ': '):
                return {'where': 'reader', 'error':
                        'message %r disagrees with linenum/column' %
                        msg[:80]}, False
        except Timeout:
            return {'where': 'reader', 'error': 'no termination in 5 s'}, \
                False
        except Exception as e:  # noqa
            return {'where': 'reader', 'error': 'escaped %s: %s' % (
                type(e).__name__, str(e)[:120])}, False
        st = io.BytesIO(data)
        try:
            DiffX.from_stream(st)
        except BaseDiffXError:
            pass
        except Timeout:
            return {'where': 'dom', 'error': 'no termination in 5 s'}, False
        except Exception as e:  # noqa
            if is_known_dom(data):
                return None, True
            return {'where': 'dom', 'error': 'escaped %s: %s' % (
                type(e).__name__, str(e)[:120])}, False
        if not st.closed:
            return {'where': 'dom', 'error': 'stream left open'}, False
    finally:
        signal.alarm(0)
    return None, False


TAIL = b'#.change:\n#..file:\n#...meta: length=3\n{}\n'
CATALOGUE = [
    # preamble that is only its newline, with indentation
    b'#diffx: encoding=utf-8, version=1.0\n#.preamble: indent=4, length=1'
    b'\n\n' + TAIL,
    b'#diffx: encoding=utf-8, version=1.0\n#.preamble: indent=4, length=2, '
    b'line_endings=dos\n\r\n' + TAIL,
    b'#diffx: encoding=utf-16, version=1.0\n#.preamble: indent=2, length=2'
    b'\n\n\x00' + TAIL,
    b'#diffx: encoding=utf-8, version=1.0\n#.preamble: indent=1, length=1, '
    b'line_endings=dos\n\n' + TAIL,
    # metadata that is JSON but not an object
    b'#diffx: encoding=utf-8, version=1.0\n#.meta: length=4\n[1]\n' + TAIL,
    b'#diffx: encoding=utf-8, version=1.0\n#.meta: length=2\n5\n' + TAIL,
    b'#diffx: encoding=utf-8, version=1.0\n#.meta: length=5\nnull\n' + TAIL,
    b'#diffx: encoding=utf-8, version=1.0\n#.meta: length=4\n"x"\n' + TAIL,
    # metadata nested too deeply
    b'#diffx: encoding=utf-8, version=1.0\n#.meta: length=100001\n'
    + b'[' * 100000 + b'\n' + TAIL,
    # preamble without any encoding
    b'#diffx: version=1.0\n#.preamble: length=3\nab\n' + TAIL,
    b'#diffx: version=1.0\n#.change:\n#..preamble: length=3\nab\n'
    b'#..file:\n#...meta: length=3\n{}\n',
    # empty content, zero / huge / odd lengths
    b'#diffx: version=1.0\n#.change:\n#..file:\n#...meta: length=0\n',
    b'#diffx: version=1.0\n#.change:\n#..file:\n#...meta: length=3\n',
    b'#diffx: version=1.0\r\n#.change:\n#..file:\n#...meta: length=3\n{}\n',
]


def bounded(seed, n):
    rng = random.Random(seed)
    evals = 0
    known = 0
    for data in CATALOGUE:
        evals += 1
        w, kn = check_one(data)
        if w:
            w['file'] = data.hex() if len(data) < 4000 else \
                data[:200].hex()
            w['catalogue_case'] = True
            return {'evaluations': evals, 'known': known, 'witness': w}
    kinds = collections.Counter()
    for k in range(n):
        r = k % 6
        if r == 0:
            data = bytes(rng.randrange(256)
                         for _ in range(rng.randrange(64)))
            if rng.random() < .5:
                data = b'#diffx: version=1.0\n' + data
        elif r == 1:
            calls, data = random_file(rng)
            lines = data.split(b'\n')
            hs = [i for i, l in enumerate(lines)
                  if l.startswith((b'#.change', b'#..file'))]
            if not hs:
                continue
            i = rng.choice(hs)
            key = rng.choice(ATTR_NAMES + [b'encodin', b'lenght', b'x'])
            val = rng.choice([b'5', b'abc', b'utf-8', b'1.0'])
            sep = b', ' if b': ' in lines[i] else b' '
            lines[i] = lines[i] + sep + key + b'=' + val
            data = b'\n'.join(lines)
        else:
            calls, data = random_file(rng)
            for _ in range(rng.randrange(1, 3)):
                data = mutate(data, rng)
        evals += 1
        w, kn = check_one(data)
        if kn:
            known += 1
        if w:
            w['file'] = data.hex()
            return {'evaluations': evals, 'known': known, 'witness': w}
    return {'evaluations': evals, 'known': known, 'witness': None}


def main():
    req = json.load(sys.stdin)
    if req['op'] == 'replay':
        w, kn = check_one(bytes.fromhex(req['witness']['file']))
        out = {'ok': w is None, 'detail': w, 'known_class': kn}
    elif req['op'] == 'known':
        data = (b'#diffx: version=1.0\n#.change: meta=5\n#..file:\n'
                b'#...meta: length=3\n{}\n')
        try:
            DiffX.from_bytes(data)
            out = {'reproduces': False}
        except BaseDiffXError:
            out = {'reproduces': False}
        except Exception as e:  # noqa
            out = {'reproduces': True, 'exception': type(e).__name__}
    else:
        out = bounded(req['seed'], req['n'])
    json.dump(out, sys.stdout)


if __name__ == '__main__':
    main()
