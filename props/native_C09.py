"""Native side of C09: call sequences through the real writer."""
import io
import itertools
import json
import random
import sys

from pydiffx.writer import DiffXWriter

from specs.sections import MAY_FOLLOW, CONTAINER_DEPTH

# (name, method, args, kwargs, valid_args?, section name)
CALLS = {
    'change': ('new_change', [], {}, True, 'change'),
    'change_enc': ('new_change', [], {'encoding': 'latin-1'}, True, 'change'),
    'change_badenc': ('new_change', [], {'encoding': 'ü'}, False, 'change'),
    'file': ('new_file', [], {}, True, 'file'),
    'file_badenc': ('new_file', [], {'encoding': 'é'}, False, 'file'),
    'pre': ('write_preamble', ['text\nmore'], {}, True, 'preamble'),
    'pre_empty': ('write_preamble', [''], {}, False, 'preamble'),
    'pre_bytes': ('write_preamble', [b'x'], {}, False, 'preamble'),
    'pre_badle': ('write_preamble', ['x'], {'line_endings': 'mac'}, False,
                  'preamble'),
    'pre_badmime': ('write_preamble', ['x'], {'mimetype': 'text/html'},
                    False, 'preamble'),
    'pre_unenc': ('write_preamble', ['snow ☃'], {'encoding': 'ascii'}, False,
                  'preamble'),
    'pre_badcodec': ('write_preamble', ['x'], {'encoding': 'nope'}, False,
                     'preamble'),
    # text the codec cannot represent under strict encoding
    'pre_unenc_surrogate': ('write_preamble', ['J\udcf6rg'],
                            {'encoding': 'utf-8'}, False, 'preamble'),
    'pre_unenc_latin': ('write_preamble', ['caf\xe9 \u2603'],
                        {'encoding': 'latin-1'}, False, 'preamble'),
    'pre_unenc_inherited': ('write_preamble', ['/\udcff.txt'], {}, False,
                            'preamble'),
    'meta': ('write_meta', [{'k': 'v'}], {}, True, 'meta'),
    'meta_empty': ('write_meta', [{}], {}, False, 'meta'),
    'meta_list': ('write_meta', [[1]], {}, False, 'meta'),
    'meta_badfmt': ('write_meta', [{'k': 1}], {'meta_format': 'xml'}, False,
                    'meta'),
    'diff': ('write_diff', [b'--- a\n+++ b\n'], {}, True, 'diff'),
    'diff_str': ('write_diff', ['text'], {}, False, 'diff'),
    'diff_empty': ('write_diff', [b''], {}, False, 'diff'),
    'diff_badtype': ('write_diff', [b'x'], {'diff_type': 'weird'}, False,
                     'diff'),
}
VALID = [k for k, v in CALLS.items() if v[3]]
INVALID = [k for k, v in CALLS.items() if not v[3]]


def target(prev, secname):
    if secname == 'change':
        return '.change'
    if secname == 'file':
        return '..file'
    return '.' * CONTAINER_DEPTH[prev] + secname


def run_sequence(seq):
    """Runs the sequence on the real writer and on a twin that only sees
    the accepted calls.  Returns a failure description or None."""
    fp = io.BytesIO()
    w = DiffXWriter(fp)
    twin_fp = io.BytesIO()
    twin = DiffXWriter(twin_fp)
    prev = 'diffx'
    for k, name in enumerate(seq):
        method, args, kwargs, valid, secname = CALLS[name]
        t = target(prev, secname)
        legal = t in MAY_FOLLOW[prev]
        should_accept = legal and valid
        before = fp.getvalue()
        try:
            getattr(w, method)(*args, **kwargs)
            accepted = True
        except Exception as e:  # noqa
            accepted = False
            exc = e
        after = fp.getvalue()
        if accepted != should_accept:
            return 'call %d (%s after %s): accepted=%s, hierarchy/arguments ' \
                   'say %s' % (k, name, prev, accepted, should_accept)
        if not after.startswith(before):
            return 'call %d (%s): output is not append-only' % (k, name)
        if not accepted and after != before:
            return 'call %d (%s): rejected call wrote %r' % (
                k, name, after[len(before):])
        if accepted:
            getattr(twin, method)(*args, **kwargs)
            prev = t
        if fp.getvalue() != twin_fp.getvalue():
            return 'call %d (%s): writer differs from a twin that never ' \
                   'saw the rejected calls' % (k, name)
    return None


def bounded(maxlen, seed, nrandom):
    evals = 0
    distinct = 0
    names = VALID + INVALID
    # exhaustive over valid calls up to maxlen, with one invalid/any call
    # injected at every position
    for ln in range(1, maxlen + 1):
        for seq in itertools.product(VALID, repeat=ln):
            evals += 1
            distinct += 1
            r = run_sequence(seq)
            if r:
                return evals, distinct, {'sequence': list(seq), 'error': r}
    for ln in range(1, maxlen):
        for seq in itertools.product(VALID, repeat=ln):
            for pos in range(ln + 1):
                for bad in INVALID:
                    s2 = list(seq[:pos]) + [bad] + list(seq[pos:])
                    evals += 1
                    r = run_sequence(s2)
                    if r:
                        return evals, distinct, {'sequence': s2, 'error': r}
    rng = random.Random(seed)
    for _ in range(nrandom):
        seq = [rng.choice(names) for _k in range(rng.randrange(3, 14))]
        evals += 1
        r = run_sequence(seq)
        if r:
            return evals, distinct, {'sequence': seq, 'error': r}
    return evals, distinct, None


def main():
    req = json.load(sys.stdin)
    if req['op'] == 'replay':
        r = run_sequence(req['witness']['sequence'])
        out = {'ok': r is None, 'error': r}
    else:
        e, d, w = bounded(req['maxlen'], req['seed'], req['random'])
        out = {'evaluations': e, 'distinct_nontrivial': d, 'witness': w}
    json.dump(out, sys.stdout)


if __name__ == '__main__':
    main()
