"""Canonical witnesses of the object-model known findings."""
import json
import sys

from pydiffx.dom import DiffX


def main():
    req = json.load(sys.stdin)
    if req['op'] == 'c19_numeric':
        a = DiffX(meta={'a': 1})
        b = DiffX(meta={'a': True})
        a.add_change().add_file(meta={'p': 1})
        b.add_change().add_file(meta={'p': 1})
        out = {'reproduces': (a == b) and a.to_bytes() != b.to_bytes(),
               'a_meta': repr(a.meta), 'b_meta': repr(b.meta)}
    elif req['op'] == 'c13_utf16':
        d = DiffX()
        f = d.add_change().add_file(meta={'p': 1})
        f.diff = '@@ -1 +1 @@\n-a\n+b\n'.encode('utf-16-le')
        f.diff_encoding = 'utf-16-le'
        d.generate_stats()
        st = f.meta.get('stats')
        out = {'reproduces': st != {'deletions': 1, 'insertions': 1,
                                    'lines changed': 2},
               'stats': repr(st)}
    json.dump(out, sys.stdout)


if __name__ == '__main__':
    main()
