"""Native side of C07: truncation at every byte, perturbed length options."""
import io
import json
import random
import re
import signal
import sys

from pydiffx.errors import DiffXParseError
from pydiffx.reader import DiffXReader

from props.native_gen import random_file


class Timeout(Exception):
    pass


def _alarm(signum, frame):
    raise Timeout()


def records(data):
    """(list of records, ending) ending = 'end' | 'parse-error' | other"""
    out = []
    signal.signal(signal.SIGALRM, _alarm)
    signal.alarm(5)
    try:
        for rec in DiffXReader(io.BytesIO(data)):
            out.append(rec)
        return out, 'end'
    except DiffXParseError:
        return out, 'parse-error'
    except Timeout:
        return out, 'timeout'
    except Exception as e:  # noqa
        return out, 'other:%s:%s' % (type(e).__name__, e)
    finally:
        signal.alarm(0)


def section_spans(data):
    """[(header_start, content_start, content_end)] by declared lengths."""
    spans = []
    pos = 0
    while pos < len(data):
        end = data.index(b'\n', pos)
        line = data[pos:end]
        m = re.search(br'length=(\d+)', line)
        cstart = end + 1
        cend = cstart + (int(m.group(1)) if m else 0)
        spans.append((pos, cstart, cend))
        pos = cend
    return spans


def classify_known(data, cut, spans, got=None, intact=None):
    """The known finding (C07#short-read-undetected): the cut falls inside a
    section's content, every earlier record is intact, and the one altered
    record is that section with a *prefix* of its content (the reader has no
    signal but the trailing newline, which the truncated content happens to
    satisfy)."""
    for k, (hs, cs, ce) in enumerate(spans):
        if cs < cut < ce:
            if got is None:
                return True
            if len(got) != k + 1 or got[:k] != intact[:k]:
                return False
            a, b = got[k], intact[k]
            for key in ('text', 'diff'):
                if key in b:
                    return (key in a and b[key].startswith(a[key]) and
                            {x: a[x] for x in a if x != key} ==
                            {x: b[x] for x in b if x != key})
            return False
    return False


def check_truncations(data, step=1):
    intact, ending = records(data)
    if ending != 'end':
        return 0, 0, {'error': 'intact file not readable: %s' % ending,
                      'file': data.hex()}, []
    spans = section_spans(data)
    evals = 0
    known = []
    for cut in range(0, len(data) + 1, step):
        evals += 1
        got, end2 = records(data[:cut])
        if end2 not in ('end', 'parse-error'):
            return evals, len(known), {
                'file': data.hex(), 'cut': cut,
                'error': 'ended with %s' % end2}, known
        if got != intact[:len(got)]:
            if classify_known(data, cut, spans, got, intact):
                known.append(cut)
                continue
            idx = [i for i, (a, b) in enumerate(zip(got, intact)) if a != b]
            return evals, len(known), {
                'file': data.hex(), 'cut': cut,
                'error': 'record %r of the truncated file differs from the '
                         'intact file: %r vs %r' % (
                             idx[:1], got[idx[0]] if idx else None,
                             intact[idx[0]] if idx else None)}, known
    return evals, len(known), None, known


def perturb_lengths(data, rng):
    """length options perturbed: +-delta, negative, non-numeric, huge."""
    spans = section_spans(data)
    intact, _ = records(data)
    evals = 0
    headers = [(hs, cs) for hs, cs, ce in spans if ce > cs]
    for hs, cs in headers:
        line = data[hs:cs]
        m = re.search(br'length=(\d+)', line)
        n = int(m.group(1))
        for new in [str(n + d).encode() for d in (-3, -2, -1, 1, 2, 3)] + [
                b'-1', b'-%d' % n, b'abc', b'1e3', b'0x10', b'',
                b'99999999999999999999999', b'%d.0' % n, b'0']:
            mod = data[:hs] + line[:m.start(1)] + new + line[m.end(1):] + \
                data[cs:]
            evals += 1
            got, ending = records(mod)
            if ending not in ('end', 'parse-error'):
                return evals, {'file': mod.hex(), 'error': 'length=%s: '
                               'ended with %s' % (new.decode(), ending)}
            # records before the damaged section must be intact
            k = [i for i, (a, b, c) in enumerate(spans) if a == hs][0]
            if got[:k] != intact[:k] and len(got) >= k:
                return evals, {'file': mod.hex(), 'error':
                               'length=%s changed an earlier record' %
                               new.decode()}
            if not re.fullmatch(br'\d+', new) and len(got) > k:
                return evals, {'file': mod.hex(), 'error':
                               'length=%s (not a non-negative integer) was '
                               'accepted' % new.decode()}
    return evals, None


def big_sections():
    """Content much longer than any plausible internal block, followed by
    more sections: exactly `length` bytes must be taken."""
    evals = 0
    for n in (4095, 4096, 4097, 65535, 65536, 65537, 70000, 131073, 200001):
        body = (b'x' * 79 + b'\n') * (n // 80) + b'y' * (n % 80 - 1) + b'\n' \
            if n % 80 else (b'x' * 79 + b'\n') * (n // 80)
        assert len(body) == n, (len(body), n)
        data = (b'#diffx: version=1.0\n#.change:\n#..file:\n'
                b'#...meta: length=3\n{}\n#...diff: length=%d\n' % n + body
                + b'#..file:\n#...meta: length=14\n{"a": "tail"}\n')
        evals += 1
        recs, ending = records(data)
        ok = (ending == 'end' and len(recs) == 7 and
              recs[4].get('diff') == body and
              recs[6].get('metadata') == {'a': 'tail'})
        if not ok:
            return evals, {'file_len': len(data), 'declared_length': n,
                           'file': data.hex() if n < 5000 else
                           '(generated: diff of %d bytes followed by a file '
                           'section)' % n,
                           'error': 'a %d-byte section followed by more '
                                    'data: %d records, ending %s, content '
                                    'taken %s' % (
                                        n, len(recs), ending,
                                        len(recs[4].get('diff', b''))
                                        if len(recs) > 4 else None)}
    return evals, None


def bounded(seed, nfiles, step):
    rng = random.Random(seed)
    e0, w0 = big_sections()
    if w0:
        return {'evaluations': e0, 'known': 0, 'witness': w0}
    evals = e0
    known_total = 0
    sample = None
    for _ in range(nfiles):
        calls, data = random_file(rng)
        if len(data) > 2500:
            continue
        e, k, w, known = check_truncations(data, step)
        evals += e
        known_total += k
        if w:
            return {'evaluations': evals, 'known': known_total, 'witness': w}
        e2, w2 = perturb_lengths(data, rng)
        evals += e2
        if w2:
            return {'evaluations': evals, 'known': known_total,
                    'witness': w2}
        if sample is None and known:
            sample = {'file_len': len(data), 'known_cuts': known[:5]}
    return {'evaluations': evals, 'known': known_total, 'witness': None,
            'sample': sample}


def main():
    req = json.load(sys.stdin)
    if req['op'] == 'replay':
        w = req['witness']
        data = bytes.fromhex(w['file'])
        if 'cut' in w:
            intact, _ = records(data)
            got, end2 = records(data[:w['cut']])
            ok = end2 in ('end', 'parse-error') and got == intact[:len(got)]
        else:
            got, end2 = records(data)
            ok = end2 in ('end', 'parse-error')
        out = {'ok': ok, 'ending': end2, 'n_records': len(got)}
    elif req['op'] == 'known':
        # canonical witness of the known finding (short read undetected)
        data = (b'#diffx: version=1.0\n#.change:\n#..file:\n'
                b'#...meta: length=3\n{}\n#...diff: length=8\nab\ncd\nef\n')
        cut = len(data) - 3
        intact, _ = records(data)
        got, end2 = records(data[:cut])
        out = {'reproduces': got != intact[:len(got)],
               'truncated_record': repr(got[-1].get('diff')) if got else None}
    else:
        out = bounded(req['seed'], req['files'], req['step'])
    json.dump(out, sys.stdout)


if __name__ == '__main__':
    main()
