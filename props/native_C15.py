"""Native side of C15: the finite table obligations over the platform's codec
table, and the write->read round trip per spelling."""
import codecs
import encodings
import encodings.aliases
import io
import json
import pkgutil
import re
import sys

from pydiffx.reader import DiffXReader
from pydiffx.utils.text import (get_newline_for_type, guess_line_endings,
                                split_lines, strip_bom)
from pydiffx.writer import DiffXWriter

VALUE = re.compile(r'[A-Za-z0-9/._-]+')
NL = {'unix': '\n', 'dos': '\r\n'}
SAMPLE = 'abc\nxyz\n'


def platform_codecs():
    names = set()
    for m in pkgutil.iter_modules(encodings.__path__):
        names.add(m.name)
    names |= set(encodings.aliases.aliases.keys())
    names |= set(encodings.aliases.aliases.values())
    return sorted(names)


def oracle_newline(canon, nltext):
    """BOM-free encoding of the newline: what the codec's incremental encoder
    emits for it *after* a first character (independent of any spelling)."""
    enc = codecs.getincrementalencoder(canon)()
    enc.encode('a')
    return enc.encode(nltext)


def is_stateless_text_codec(name):
    try:
        info = codecs.lookup(name)
    except LookupError:
        return None
    if not getattr(info, '_is_text_encoding', True):
        return None
    canon = info.name
    try:
        whole = 'a\nb\r\nc'.encode(name)
        if whole.decode(name) != 'a\nb\r\nc':
            return None
        enc = codecs.getincrementalencoder(canon)()
        parts = [enc.encode(ch) for ch in 'a\nb\r\nc']
        if b''.join(parts) != whole:
            return None
        # statelessness: a newline encodes the same wherever it stands
        if oracle_newline(canon, '\n') != parts[1][-len(parts[1]):] and \
                whole.find(oracle_newline(canon, '\n')) < 0:
            return None
        e2 = codecs.getincrementalencoder(canon)()
        e2.encode('zz')
        if e2.encode('\n') != oracle_newline(canon, '\n'):
            return None
    except Exception:  # noqa
        return None
    return canon


def spellings(name):
    out = {name, name.upper(), name.lower(), name.replace('_', '-'),
           name.replace('-', '_'), name.title()}
    return sorted(s for s in out if VALUE.fullmatch(s) and
                  not re.fullmatch(r'[0-9]+', s))


def unbordered(b):
    return len(b) > 0 and not any(b[:k] == b[-k:] for k in range(1, len(b)))


# texts of the write -> read dimension (C15 quantifies over texts): the
# plain one, and one whose later lines begin with / contain U+FEFF - the
# character a BOM-consuming spelling must only ever drop at the very start
# of the section's byte stream, never per line (seed C15-5)
TEXTS = ['top\n  line two',
         'one\n\ufefftwo\n  \ufeffthree\nfo\ufeffur\n\ufeff']


def roundtrip(spelling, kind, src='top\n  line two'):
    fp = io.BytesIO()
    w = DiffXWriter(fp)
    w.write_preamble(src, encoding=spelling,
                     line_endings=kind)
    w.new_change()
    w.write_meta({'k': 'v'}, encoding=spelling)
    w.new_file()
    w.write_meta({'p': 'q'})
    data = fp.getvalue()
    recs = list(DiffXReader(io.BytesIO(data)))
    nl = NL[kind]
    text = [r for r in recs if r['section'] == '.preamble'][0]['text']
    meta = [r for r in recs if r['section'] == '..meta'][0]['metadata']
    return data, text, meta


def table(tier):
    evals = 0
    codecs_seen = {}
    failures = []
    samples = []
    for name in platform_codecs():
        canon = is_stateless_text_codec(name)
        if canon is None:
            continue
        for sp in spellings(name):
            try:
                if codecs.lookup(sp).name != canon:
                    continue
            except LookupError:
                continue
            codecs_seen.setdefault(canon, set()).add(sp)
            ref_bytes = {}
            for kind in ('unix', 'dos'):
                evals += 1
                exp = oracle_newline(canon, NL[kind])
                try:
                    got = get_newline_for_type(kind, sp)
                except Exception as e:  # noqa
                    got = 'EXC %s' % type(e).__name__
                if got != exp:
                    failures.append({'obligation': 'T1.newline',
                                     'spelling': sp, 'codec': canon,
                                     'kind': kind, 'got': repr(got),
                                     'expected': repr(exp)})
                    continue
                if not unbordered(exp) or b' ' in exp:
                    failures.append({'obligation': 'T2.unbordered_spacefree',
                                     'spelling': sp, 'newline': repr(exp)})
                if strip_bom(exp, sp) != exp:
                    failures.append({'obligation': 'T2.strip_idempotent',
                                     'spelling': sp, 'newline': repr(exp)})
                # T3: guessing on encoded text finds the same newline
                txt = ('ab' + NL[kind] + 'cd' + NL[kind])
                g = guess_line_endings(txt.encode(sp), sp)
                if g != (kind, exp):
                    failures.append({'obligation': 'T3.guess',
                                     'spelling': sp, 'kind': kind,
                                     'got': repr(g)})
                # T4: write -> read per spelling
                try:
                    data, text, meta = roundtrip(sp, kind)
                    okrt = (text == 'top' + '\n' + '  line two' + NL[kind]
                            and meta == {'k': 'v'})
                    if kind == 'unix' and text != 'top\n  line two\n':
                        okrt = False
                    # further texts, where the codec can encode them: the
                    # text read back is the text written (plus the final
                    # newline), and the bytes do not depend on the spelling
                    for ti, src in enumerate(TEXTS[1:], 1):
                        try:
                            src.encode(canon)
                        except UnicodeError:
                            continue
                        evals += 1
                        d2, t2, _m2 = roundtrip(sp, kind, src)
                        f, r = d2.split(b'\n', 1)
                        n2 = f + b'\n' + re.sub(
                            (r'encoding=%s(?=[,\n])'
                             % re.escape(sp)).encode(), b'encoding=@', r)
                        if table.ref.setdefault((canon, kind, ti),
                                                n2) != n2:
                            failures.append({
                                'obligation': 'T4.same_bytes',
                                'spelling': sp, 'kind': kind, 'text': ti})
                        if t2 != src + NL[kind]:
                            okrt = False
                            data = ('text %d read back as %r'
                                    % (ti, t2)).encode('unicode_escape')
                            break
                except Exception as e:  # noqa
                    okrt = False
                    data = ('EXC %s: %s' % (type(e).__name__, e)).encode()
                if not okrt:
                    failures.append({'obligation': 'T4.roundtrip',
                                     'spelling': sp, 'kind': kind,
                                     'detail': data[-200:].decode(
                                         'latin-1')})
                else:
                    # same bytes apart from the spelled name
                    first, rest = data.split(b'\n', 1)
                    norm = first + b'\n' + re.sub(
                        (r'encoding=%s(?=[,\n])' % re.escape(sp)).encode(),
                        b'encoding=@', rest)
                    key = (canon, kind)
                    ref = ref_bytes.setdefault(key, None)
                    if table.ref.setdefault(key, norm) != norm:
                        failures.append({'obligation': 'T4.same_bytes',
                                         'spelling': sp, 'kind': kind})
            if len(samples) < 6:
                samples.append({'codec': canon, 'spelling': sp,
                                'newline_unix': repr(oracle_newline(
                                    canon, '\n'))})
        if failures and tier == 'quick' and len(failures) > 20:
            break
    return {'evaluations': evals, 'codecs': len(codecs_seen),
            'spellings': sum(len(v) for v in codecs_seen.values()),
            'failures': failures[:20], 'n_failures': len(failures),
            'samples': samples}


table.ref = {}


def main():
    req = json.load(sys.stdin)
    if req['op'] == 'replay':
        w = req['witness']
        sp = w['spelling']
        kind = w.get('kind', 'unix')
        canon = codecs.lookup(sp).name
        got = get_newline_for_type(kind, sp)
        exp = oracle_newline(canon, NL[kind])
        out = {'ok': got == exp, 'got': repr(got), 'expected': repr(exp)}
    else:
        out = table(req.get('tier', 'quick'))
    json.dump(out, sys.stdout)


if __name__ == '__main__':
    main()
