"""Native side of C01 / C02: writer bytes vs the independent serializer, and
reader records vs the records known by construction."""
import io
import itertools
import json
import random
import re
import sys

from pydiffx.reader import DiffXReader

from props.native_gen import random_file, random_calls, run_calls, TEXTS, \
    DIFFS, ENCODINGS
from props.native_spec import SpecWriter

HDR = re.compile(
    br'#\.{0,3}(diffx|preamble|meta|change|file|diff):'
    br'( [A-Za-z][A-Za-z0-9_-]*=[A-Za-z0-9/._-]+'
    br'(, [A-Za-z][A-Za-z0-9_-]*=[A-Za-z0-9/._-]+)*)?')


def canonical_checks(data):
    """Header-level conformance, independent of the serializer oracle."""
    pos = 0
    while pos < len(data):
        end = data.index(b'\n', pos)
        line = data[pos:end]
        if not HDR.fullmatch(line):
            return 'header not in the grammar: %r' % line
        opts = line.split(b':', 1)[1].strip()
        keys = [p.split(b'=')[0] for p in opts.split(b', ')] if opts else []
        if keys != sorted(keys):
            return 'options not in alphabetical order: %r' % line
        m = re.search(br'length=(\d+)', line)
        pos = end + 1 + (int(m.group(1)) if m else 0)
    return None


def check_calls(calls, want_bytes=True, want_records=True):
    try:
        data = run_calls(calls)
    except (UnicodeError, LookupError):
        return None
    sb, recs = SpecWriter().replay(calls)
    if want_bytes:
        if data != sb:
            i = next((k for k in range(min(len(data), len(sb)))
                      if data[k] != sb[k]), min(len(data), len(sb)))
            return {'calls': repr(calls)[:1500], 'error':
                    'writer output differs from the specification '
                    'serializer at byte %d: %r vs %r' % (
                        i, data[max(0, i - 40):i + 40],
                        sb[max(0, i - 40):i + 40])}
        c = canonical_checks(data)
        if c:
            return {'calls': repr(calls)[:1500], 'error': c}
    if want_records:
        try:
            got = list(DiffXReader(io.BytesIO(data)))
        except Exception as e:  # noqa
            return {'calls': repr(calls)[:1500], 'file': data.hex(),
                    'error': 'reading back raised %s: %s' % (
                        type(e).__name__, e)}
        if got != recs:
            d = next(((a, b) for a, b in zip(got, recs) if a != b),
                     (len(got), len(recs)))
            return {'calls': repr(calls)[:1500], 'file': data.hex(),
                    'error': 'records differ from what was written: '
                             '%r vs %r' % d}
    return None


def small_exhaustive(limit):
    """A fixed small structure x every combination of (encoding, indent,
    line_endings) for one preamble and one diff."""
    n = 0
    texts = ['a\nb', 'a\r\nb\r\n', '  x\n\n', '#.meta:\n', 'é☃']
    for text, enc, indent, le, cenc in itertools.product(
            texts, ENCODINGS[:7], [0, 1, 4], [None, 'unix', 'dos'],
            [None, 'utf-16', 'latin-1']):
        kw = {'indent': indent}
        if enc:
            kw['encoding'] = enc
        if le:
            kw['line_endings'] = le
        ckw = {'encoding': cenc} if cenc else {}
        calls = [('__init__', [], {'encoding': 'utf-8'}),
                 ('new_change', [], ckw),
                 ('write_preamble', [text], kw),
                 ('write_meta', [{'t': text}], {}),
                 ('new_file', [], {}),
                 ('write_meta', [{'p': 1}], {}),
                 ('write_diff', [text.encode('utf-8')],
                  {'line_endings': le} if le else {})]
        n += 1
        if n > limit:
            break
        w = check_calls(calls)
        if w:
            return n, w
    return n, None


def bounded(seed, nrandom, limit, want_bytes, want_records):
    n, w = small_exhaustive(limit)
    if w:
        return {'evaluations': n, 'witness': w}
    rng = random.Random(seed)
    for _ in range(nrandom):
        calls = random_calls(rng)
        n += 1
        w = check_calls(calls, want_bytes, want_records)
        if w:
            return {'evaluations': n, 'witness': w}
    return {'evaluations': n, 'witness': None}


def main():
    req = json.load(sys.stdin)
    if req['op'] == 'replay':
        out = {'ok': False, 'claimed': req['witness'].get('error')}
    else:
        out = bounded(req['seed'], req['random'], req['limit'],
                      req.get('bytes', True), req.get('records', True))
    json.dump(out, sys.stdout)


if __name__ == '__main__':
    main()
