"""Native side of C01 / C02: writer bytes vs the independent serializer, and
reader records vs the records known by construction."""
import io
import itertools
import json
import random
import re
import sys

from pydiffx.reader import DiffXReader

from props.native_gen import random_file, random_calls, run_calls, TEXTS, \
    DIFFS, ENCODINGS
from props.native_spec import SpecWriter

HDR = re.compile(
    br'#\.{0,3}(diffx|preamble|meta|change|file|diff):'
    br'( [A-Za-z][A-Za-z0-9_-]*=[A-Za-z0-9/._-]+'
    br'(, [A-Za-z][A-Za-z0-9_-]*=[A-Za-z0-9/._-]+)*)?')


def canonical_checks(data):
    """Header-level conformance, independent of the serializer oracle."""
    pos = 0
    while pos < len(data):
        end = data.index(b'\n', pos)
        line = data[pos:end]
        if not HDR.fullmatch(line):
            return 'header not in the grammar: %r' % line
        opts = line.split(b':', 1)[1].strip()
        keys = [p.split(b'=')[0] for p in opts.split(b', ')] if opts else []
        if keys != sorted(keys):
            return 'options not in alphabetical order: %r' % line
        m = re.search(br'length=(\d+)', line)
        pos = end + 1 + (int(m.group(1)) if m else 0)
    return None


def check_calls(calls, want_bytes=True, want_records=True):
    try:
        data = run_calls(calls)
    except (UnicodeError, LookupError):
        return None
    sb, recs = SpecWriter().replay(calls)
    if want_bytes:
        if data != sb:
            i = next((k for k in range(min(len(data), len(sb)))
                      if data[k] != sb[k]), min(len(data), len(sb)))
            return {'calls': repr(calls)[:1500], 'error':
                    'writer output differs from the specification '
                    'serializer at byte %d: %r vs %r' % (
                        i, data[max(0, i - 40):i + 40],
                        sb[max(0, i - 40):i + 40])}
        c = canonical_checks(data)
        if c:
            return {'calls': repr(calls)[:1500], 'error': c}
    if want_records:
        try:
            got = list(DiffXReader(io.BytesIO(data)))
        except Exception as e:  # noqa
            return {'calls': repr(calls)[:1500], 'file': data.hex(),
                    'error': 'reading back raised %s: %s' % (
                        type(e).__name__, e)}
        if got != recs:
            d = next(((a, b) for a, b in zip(got, recs) if a != b),
                     (len(got), len(recs)))
            return {'calls': repr(calls)[:1500], 'file': data.hex(),
                    'error': 'records differ from what was written: '
                             '%r vs %r' % d}
    return None


def small_exhaustive(limit):
    """A fixed small structure x every combination of (encoding, indent,
    line_endings) for one preamble and one diff."""
    n = 0
    texts = ['a\nb', 'a\r\nb\r\n', '  x\n\n', '#.meta:\n', 'é☃']
    for text, enc, indent, le, cenc in itertools.product(
            texts, ENCODINGS[:7], [0, 1, 4], [None, 'unix', 'dos'],
            [None, 'utf-16', 'latin-1']):
        kw = {'indent': indent}
        if enc:
            kw['encoding'] = enc
        if le:
            kw['line_endings'] = le
        ckw = {'encoding': cenc} if cenc else {}
        calls = [('__init__', [], {'encoding': 'utf-8'}),
                 ('new_change', [], ckw),
                 ('write_preamble', [text], kw),
                 ('write_meta', [{'t': text}], {}),
                 ('new_file', [], {}),
                 ('write_meta', [{'p': 1}], {}),
                 ('write_diff', [text.encode('utf-8')],
                  {'line_endings': le} if le else {})]
        n += 1
        if n > limit:
            break
        w = check_calls(calls)
        if w:
            return n, w
    return n, None


def scope_histories():
    """History dimension (seed C02-5): the *same* content call, with explicit
    options and an inherited encoding, repeated under successive containers
    whose effective encodings differ - whatever a writer remembers from one
    scope must not reach the next (pop back to the parent, sibling with
    another encoding, file level and change level)."""
    n = 0
    encs = ['utf-8', 'utf-16', 'latin-1', 'utf-32-be']
    for main, a, b, le, indent in itertools.product(
            encs, [None] + encs, [None] + encs, ['unix', 'dos', None],
            [0, 2]):
        pkw = {'indent': indent}
        dkw = {}
        if le:
            pkw['line_endings'] = le
            dkw['line_endings'] = le

        def body(tag):
            return [('write_preamble', ['p%s\nq' % tag], dict(pkw)),
                    ('write_meta', [{'m': tag}], {})]
        calls = [('__init__', [], {'encoding': main}),
                 ('write_preamble', ['top\nx'], dict(pkw))]
        calls += [('new_change', [], {'encoding': a} if a else {})] + \
            body('1')
        calls += [('new_file', [], {'encoding': b} if b else {}),
                  ('write_meta', [{'f': 1}], {}),
                  ('write_diff', [b'-a\n+b\n'], dict(dkw)),
                  ('new_file', [], {}),
                  ('write_meta', [{'f': 2}], {}),
                  ('write_diff', [b'-c\n+d\n'], dict(dkw))]
        calls += [('new_change', [], {'encoding': b} if b else {})] + \
            body('2')
        calls += [('new_file', [], {}), ('write_meta', [{'f': 3}], {})]
        calls += [('new_change', [], {})] + body('3')
        calls += [('new_file', [], {'encoding': a} if a else {}),
                  ('write_meta', [{'f': 4}], {})]
        n += 1
        w = check_calls(calls)
        if w:
            return n, w
    return n, None


def bounded(seed, nrandom, limit, want_bytes, want_records):
    n, w = small_exhaustive(limit)
    if w:
        return {'evaluations': n, 'witness': w}
    n2, w = scope_histories()
    n += n2
    if w:
        return {'evaluations': n, 'witness': w}
    rng = random.Random(seed)
    for _ in range(nrandom):
        calls = random_calls(rng)
        n += 1
        w = check_calls(calls, want_bytes, want_records)
        if w:
            return {'evaluations': n, 'witness': w}
    return {'evaluations': n, 'witness': None}


def main():
    req = json.load(sys.stdin)
    if req['op'] == 'replay':
        out = {'ok': False, 'claimed': req['witness'].get('error')}
    else:
        out = bounded(req['seed'], req['random'], req['limit'],
                      req.get('bytes', True), req.get('records', True))
    json.dump(out, sys.stdout)


if __name__ == '__main__':
    main()
