"""Native side of the object-model properties (C05, C06, C13, C18, C19)."""
import copy
import io
import json
import random
import sys

from pydiffx.dom import DiffX
from pydiffx.dom.reader import DiffXDOMReader
from pydiffx.dom.writer import DiffXDOMWriter
from pydiffx.errors import (BaseDiffXError, DiffXOptionValueError,
                            DiffXSectionOrderError,
                            DiffXUnknownOptionError)

from props.native_gen import TEXTS, DIFFS

ENCS = [None, 'utf-8', 'utf-16', 'utf-32-be', 'utf-16-le']

# distinct non-trivial generated cases of the current operation (hashes)
DISTINCT = set()


def note_case(*parts):
    import hashlib
    DISTINCT.add(hashlib.sha1(repr(parts).encode('utf-8', 'replace'))
                 .hexdigest())



def snap(section):
    """Deep, order-preserving snapshot of a tree (independent of __eq__)."""
    out = {'cls': type(section).__name__, 'id': section.section_id,
           'options': copy.deepcopy(section.options)}
    if hasattr(section, 'content'):
        out['content'] = copy.deepcopy(section.content)
    else:
        out['sub'] = [snap(s) for s in section.subsections]
    return out


def rand_tree(rng, safe=True):
    d = DiffX()
    if rng.random() < .5:
        d.preamble = rng.choice(TEXTS)
        if rng.random() < .5:
            d.preamble_indent = rng.choice([0, 2, 4])
        if rng.random() < .3:
            d.preamble_line_endings = rng.choice(['unix', 'dos'])
    if rng.random() < .5:
        d.meta = {'k': rng.choice(TEXTS), 'stats': {'custom': 1}}
    for c in range(rng.randrange(0 if not safe else 1, 4)):
        ch = d.add_change()
        e = rng.choice(ENCS)
        if e and rng.random() < .4:
            ch.encoding = e
        if rng.random() < .5:
            ch.preamble = rng.choice(TEXTS)
        ch.meta = {'id': 'c%d' % c}
        for f in range(rng.randrange(0 if not safe else 1, 4)):
            fl = ch.add_file()
            fl.meta = {'path': 'f%d' % f, 'n': [1, None, True]}
            if rng.random() < .7:
                fl.diff = rng.choice(DIFFS)
                if rng.random() < .3:
                    fl.diff_type = rng.choice(['text', 'binary'])
                if rng.random() < .3:
                    fl.diff_line_endings = rng.choice(['unix', 'dos'])
    return d


ATTR_VALUES = ['utf-8', 'nope', 'dos', 'unix', 'text', 'binary', 'json',
               'text/plain', 'text/html', '1.0', '2.0', 4, 0, -1, True, None,
               b'bytes', 'DOS', 1.5, ['x'], {'a': 1}, '']
SPEC = {
    'encoding': (str, None), 'version': (str, {'1.0'}),
    'indent': (int, None), 'line_endings': (str, {'dos', 'unix'}),
    'mimetype': (str, {'text/markdown', 'text/plain'}),
    'format': (str, {'json'}), 'type': (str, {'binary', 'text'}),
    'preamble': (str, None), 'meta': (dict, None), 'diff': (bytes, None),
}


def spec_of(attr):
    if attr in ('preamble', 'meta', 'diff', 'encoding', 'version'):
        return SPEC[attr]
    return SPEC[attr.split('_', 1)[1]]


def all_attrs(section):
    names = []
    for k in type(section).__mro__:
        for n, v in vars(k).items():
            if n.startswith('_') or n in names:
                continue
            tn = type(v).__name__
            if tn.endswith('OptionProperty') or \
                    tn == 'SubsectionAttrProperty':
                names.append(n)
    return names


def c19(seed, n):
    rng = random.Random(seed)
    evals = 0
    for _ in range(n):
        d = rand_tree(rng)
        others = [rand_tree(rng)]
        targets = [d] + d.changes + [f for c in d.changes for f in c.files]
        t = rng.choice(targets)
        attr = rng.choice(all_attrs(t))
        v = rng.choice(ATTR_VALUES)
        before = (snap(d), snap(others[0]))
        note_case('assign', type(t).__name__, attr, v)
        typ, choices = spec_of(attr)
        valid = isinstance(v, typ) and (choices is None or v in choices)
        evals += 1
        try:
            setattr(t, attr, v)
            ok = True
        except (DiffXOptionValueError, TypeError):
            ok = False
        except Exception as e:  # noqa
            return evals, {'error': 'assigning %s=%r raised %s' % (
                attr, v, type(e).__name__)}
        after = (snap(d), snap(others[0]))
        if ok != valid:
            return evals, {'error': 'assigning %s=%r: accepted=%s, declared '
                           'type/choice says %s' % (attr, v, ok, valid)}
        if not ok and before != after:
            return evals, {'error': 'rejected assignment %s=%r changed the '
                           'tree' % (attr, v)}
        if ok and getattr(t, attr) != v:
            return evals, {'error': 'assignment %s=%r not stored' % (attr, v)}
        if after[1] != before[1]:
            return evals, {'error': 'another tree changed'}
        # unknown constructor attributes
        evals += 1
        try:
            DiffX(**{rng.choice(['bogus', 'files', 'foo_bar', 'diff']): 1})
            return evals, {'error': 'unknown constructor attribute accepted'}
        except DiffXUnknownOptionError:
            pass
        except Exception as e:  # noqa
            return evals, {'error': 'unknown constructor attribute raised '
                           '%s' % type(e).__name__}
        # equality structural and congruent
        a = rand_tree(random.Random(seed * 7919 + evals))
        b = rand_tree(random.Random(seed * 7919 + evals))
        evals += 1
        if not (a == b) or (a != b) or snap(a) != snap(b):
            return evals, {'error': 'identically built trees unequal'}
        if a.to_bytes() != b.to_bytes():
            return evals, {'error': 'equal trees serialise differently'}
        # single-field perturbation
        secs = [a] + a.changes + [f for c in a.changes for f in c.files]
        s = rng.choice(secs)
        kind = rng.randrange(4)
        try:
            if kind == 0:
                s.meta = dict(s.meta, extra=rng.randrange(1000) + 2)
            elif kind == 1:
                s.options['encoding'] = 'x-%d' % rng.randrange(1000)
            elif kind == 2 and hasattr(s, 'add_file'):
                s.add_file()
            elif kind == 2 and hasattr(s, 'add_change'):
                s.add_change()
            else:
                s.meta_section.options['zz'] = rng.randrange(1000) + 2
        except Exception as e:  # noqa
            return evals, {'error': 'perturbation raised %s' % e}
        if snap(a) != snap(b) and (a == b or not (a != b)):
            return evals, {'error': 'trees differing in one field compare '
                           'equal (perturbation kind %d on %s)' % (
                               kind, type(s).__name__)}
    return evals, None


def c18(seed, n):
    rng = random.Random(seed)
    evals = 0
    reader = DiffXDOMReader(DiffX)
    writer = DiffXDOMWriter()
    from pydiffx.reader import DiffXReader
    for _ in range(n):
        trees = [rand_tree(rng) for _k in range(3)]
        data = trees[0].to_bytes()
        # results of the streaming reader are parse results too: annotating
        # one record must not show on another record, another parse, or a
        # later parse
        recs_a = list(DiffXReader(io.BytesIO(data)))
        recs_b = list(DiffXReader(io.BytesIO(data)))
        pristine = copy.deepcopy(recs_b)
        evals += 1
        note_case('records', data)
        k = rng.randrange(len(recs_a))
        recs_a[k]['options']['annotated'] = True
        if isinstance(recs_a[k].get('metadata'), dict):
            recs_a[k]['metadata']['annotated'] = True
        others = [r for j, r in enumerate(recs_a) if j != k]
        if others != [r for j, r in enumerate(pristine) if j != k]:
            return evals, {'error': 'annotating the options / metadata of '
                           'one streaming-reader record changed another '
                           'record of the same parse'}
        if recs_b != pristine or \
                list(DiffXReader(io.BytesIO(data))) != pristine:
            return evals, {'error': 'annotating a streaming-reader record '
                           'changed the records of another / a later parse'}
        trees.append(reader.parse(io.BytesIO(data)))
        trees.append(reader.parse(io.BytesIO(data)))
        for step in range(6):
            i = rng.randrange(len(trees))
            others = [snap(t) for k, t in enumerate(trees) if k != i]
            op = rng.randrange(7)
            t = trees[i]
            evals += 1
            note_case('op', op, snap(t))
            try:
                if op == 0:
                    if rng.random() < .3:
                        t.meta = {}       # cleared, then written in place
                    t.meta['touched'] = rng.randrange(10 ** 6)
                elif op == 1 and t.changes:
                    c = rng.choice(t.changes)
                    c.meta['touched'] = rng.randrange(10 ** 6)
                    if c.files:
                        fl = rng.choice(c.files)
                        fl.meta['n'].append(rng.randrange(10 ** 6)) \
                            if isinstance(fl.meta.get('n'), list) else None
                        fl.meta['touched'] = 1
                elif op == 2:
                    t.options['encoding'] = rng.choice(['utf-8', 'utf-16'])
                    t.preamble_section.options['indent'] = \
                        rng.choice([0, 2, 8])
                    t.meta_section.options['format'] = 'json'
                elif op == 3:
                    t.add_change().add_file().meta['p'] = 1
                elif op == 4:
                    t.generate_stats()
                elif op == 5:
                    me = snap(t)
                    s1 = io.BytesIO()
                    writer.write_stream(t, s1)
                    b1 = t.to_bytes()
                    b2 = t.to_bytes()
                    repr(t)
                    t == trees[(i + 1) % len(trees)]
                    if snap(t) != me:
                        return evals, {'error': 'serialising / comparing / '
                                       'printing changed the tree'}
                    if not (b1 == b2 == s1.getvalue()):
                        return evals, {'error': 'serialising twice gave '
                                       'different bytes'}
                else:
                    trees.append(reader.parse(io.BytesIO(t.to_bytes())))
            except (BaseDiffXError, UnicodeError, LookupError):
                pass
            now = [snap(x) for k, x in enumerate(trees[:len(others) + 1])
                   if k != i]
            if now != others:
                return evals, {'error': 'operation %d on tree %d changed '
                               'another tree' % (op, i)}
    return evals, None

# --- C13 -----------------------------------------------------------------
GARBAGE = ['diff --git a/x b/x', 'index 1234567..89abcde 100644',
           '--- a/x', '+++ b/x', 'Only in foo: bar', '', 'random text',
           '-- ', '+not in a hunk', '-not in a hunk']


def gen_diff(rng, nl, enc):
    """Text diff with known counts: (bytes, inserts, deletes)."""
    lines = []
    ins = dele = 0
    old_ln, new_ln = 1, 1
    for g in range(rng.randrange(0, 3)):
        lines.append(rng.choice(GARBAGE[:8]))
    for h in range(rng.randrange(1, 4)):
        body = []
        o = n = 0
        for k in range(rng.randrange(1, 7)):
            kind = rng.choice(' -+')
            txt = rng.choice(['x', '', 'foo bar', '+-+', '@@ x', '--- a',
                              '+++ b', ' lead', '-- sql comment', '++ x',
                              '- item', '+ item', '@ -1 +1 @@'])
            body.append(kind + txt)
            if kind in ' -':
                o += 1
            if kind in ' +':
                n += 1
            if kind == '+':
                ins += 1
            if kind == '-':
                dele += 1
        if rng.random() < .5:
            hdr = '@@ -%d,%d +%d,%d @@' % (old_ln, o, new_ln, n)
        else:
            hdr = '@@ -%d,%d +%d,%d @@ def f():' % (old_ln, o, new_ln, n)
        if o == 1 and rng.random() < .5:
            hdr = hdr.replace('-%d,1' % old_ln, '-%d' % old_ln, 1)
        lines.append(hdr)
        lines += body
        if rng.random() < .2:
            lines.append('\\ No newline at end of file')
        old_ln += o + rng.randrange(1, 5)
        new_ln += n + rng.randrange(1, 5)
        for g in range(rng.randrange(0, 3)):
            lines.append(rng.choice(GARBAGE))
    text = ''.join(l + nl for l in lines)
    return text.encode(enc or 'utf-8'), ins, dele


def c13(seed, n):
    import logging
    logging.disable(logging.CRITICAL)
    rng = random.Random(seed)
    evals = 0
    known = []
    for it in range(n):
        d = DiffX()
        d.meta = {'title': 't'}
        if rng.random() < .5:
            d.meta['stats'] = {'custom': 'top', 'insertions': 999}
        expect = {}
        truth_tot = []
        multibyte = False
        allow_mb = rng.random() < .12
        for ci in range(rng.randrange(0, 4)):
            c = d.add_change()
            c.meta = {'id': ci}
            if rng.random() < .4:
                c.meta['stats'] = {'custom': ci, 'files': 77}
            ctot = [0, 0]
            for fi in range(rng.randrange(0, 4)):
                f = c.add_file()
                f.meta = {'path': 'p%d' % fi}
                pre = None
                if rng.random() < .4:
                    pre = {'custom': [1, 2], 'insertions': 5, 'deletions': 7,
                           'lines changed': 12}
                    f.meta['stats'] = copy.deepcopy(pre)
                kind = rng.choice(['text', 'text', 'text', 'binary', 'empty',
                                   'absent', 'broken'])
                nl = rng.choice(['\n', '\r\n'])
                enc = rng.choice([None, None, 'utf-8', 'latin-1', 'ascii']
                                 + (['utf-16-le', 'utf-32'] if allow_mb
                                    else []))
                exp = pre
                if kind in ('text', 'binary', 'broken'):
                    data, i_, d_ = gen_diff(rng, nl, enc)
                    if kind == 'broken':
                        # hunk header promising more lines than the file has
                        data = ('@@ -1,5 +1,5 @@' + nl + ' a' + nl).encode(
                            enc or 'utf-8')
                    f.diff = data
                    if enc:
                        f.diff_encoding = enc
                    if rng.random() < .5:
                        f.diff_line_endings = \
                            'unix' if nl == '\n' else 'dos'
                    if kind == 'binary':
                        f.diff_type = 'binary'
                    elif rng.random() < .3:
                        f.diff_type = 'text'
                    if kind == 'text':
                        exp = dict(pre or {})
                        exp.update({'insertions': i_, 'deletions': d_,
                                    'lines changed': i_ + d_})
                    if kind in ('text', 'broken') and \
                            enc in ('utf-16-le', 'utf-32'):
                        multibyte = True
                elif kind == 'empty':
                    f.diff = b''
                expect[(ci, fi)] = exp
                if exp:
                    ctot[0] += exp.get('insertions', 0)
                    ctot[1] += exp.get('deletions', 0)
            truth_tot.append((len(c.files), ctot[0], ctot[1]))
        before = snap(d)
        evals += 1
        if d.changes:
            note_case('stats', before)
        try:
            d.generate_stats()
        except Exception as e:  # noqa
            return evals, {'error': 'generate_stats raised %s: %s' % (
                type(e).__name__, e)}, known
        once = snap(d)
        d.generate_stats()
        err = None
        if snap(d) != once:
            err = 'generating twice differs from generating once'
        for (ci, fi), exp in expect.items():
            f = d.changes[ci].files[fi]
            got = f.meta.get('stats')
            if got != exp and not err:
                err = 'file %d/%d: stats %r, expected %r (diff %r, ' \
                      'options %r)' % (ci, fi, got, exp, f.diff[:80],
                                       f.diff_section.options)
            if f.meta.get('path') != 'p%d' % fi and not err:
                err = 'file metadata lost'
        for ci, (nf, i_, d_) in enumerate(truth_tot):
            c = d.changes[ci]
            st = c.meta.get('stats', {})
            want = {'files': nf, 'insertions': i_, 'deletions': d_,
                    'lines changed': i_ + d_}
            if {k: st.get(k) for k in want} != want and not err:
                err = 'change %d: stats %r, expected %r' % (ci, st, want)
            if 'custom' in before['sub'][0] and not err:
                pass
            if c.meta.get('id') != ci and not err:
                err = 'change metadata lost'
        top = d.meta.get('stats', {})
        want = {'changes': len(d.changes),
                'files': sum(t[0] for t in truth_tot),
                'insertions': sum(t[1] for t in truth_tot),
                'deletions': sum(t[2] for t in truth_tot)}
        want['lines changed'] = want['insertions'] + want['deletions']
        if {k: top.get(k) for k in want} != want and not err:
            err = 'top level: stats %r, expected %r' % (top, want)
        if d.meta.get('title') != 't' and not err:
            err = 'top-level metadata lost'
        # custom keys survive
        def customs(s, path=()):
            out = []
            if s.get('content') and isinstance(s['content'], dict) and \
                    isinstance(s['content'].get('stats'), dict) and \
                    'custom' in s['content']['stats']:
                out.append((path, s['content']['stats']['custom']))
            for i, x in enumerate(s.get('sub', [])):
                out += customs(x, path + (i,))
            return out
        if customs(before) != customs(snap(d)) and not err:
            err = 'custom statistics keys not preserved'
        if err:
            if multibyte:
                known.append(err)
                continue
            return evals, {'error': err}, known
    return evals, None, known


# --- C05 / C06 -----------------------------------------------------------
PRE_ATTR = {'indent': 'preamble_indent', 'line_endings':
            'preamble_line_endings', 'mimetype': 'preamble_mimetype',
            'encoding': 'preamble_encoding'}


def tree_from_calls(calls, how):
    """Build the tree through the public API: constructor keyword arguments
    (how=0) or typed attributes after construction (how=1)."""
    d = None
    cur = None
    for name, args, kw in calls:
        if name == '__init__':
            d = DiffX(**kw) if how == 0 else DiffX()
            if how:
                for k, v in kw.items():
                    setattr(d, k, v)
            cur = d
        elif name == 'new_change':
            cur = d.add_change(**kw) if how == 0 else d.add_change()
            if how:
                for k, v in kw.items():
                    setattr(cur, k, v)
        elif name == 'new_file':
            ch = d.changes[-1]
            cur = ch.add_file(**kw) if how == 0 else ch.add_file()
            if how:
                for k, v in kw.items():
                    setattr(cur, k, v)
        elif name == 'write_preamble':
            cur.preamble = args[0]
            for k, v in kw.items():
                setattr(cur, PRE_ATTR[k], v)
        elif name == 'write_meta':
            cur.meta = copy.deepcopy(args[0])
            for k, v in kw.items():
                setattr(cur, {'encoding': 'meta_encoding',
                              'meta_format': 'meta_format'}[k], v)
        elif name == 'write_diff':
            cur.diff = args[0]
            for k, v in kw.items():
                setattr(cur, {'encoding': 'diff_encoding', 'line_endings':
                              'diff_line_endings', 'diff_type':
                              'diff_type'}[k], v)
        elif name == 'empty':
            # an empty content section that carries options: omitted
            setattr(cur, args[0], args[1])
            for k, v in kw.items():
                setattr(cur, k, v)
    return d


def vary_calls(rng, calls):
    """Shapes random_calls never makes: no change, changes without files,
    files without metadata, empty content sections with options."""
    r = rng.random()
    if r < .08:
        return calls[:1], False
    out = []
    skip_files = rng.random() < .06
    infile = False
    for c in calls:
        if c[0] == 'new_file':
            infile = True
        elif c[0] in ('new_change', '__init__'):
            infile = False
        if skip_files and infile:
            continue
        out.append(c)
    final = []
    infile = False
    dropped_meta = 0
    for c in out:
        if c[0] == 'new_file':
            infile = True
        elif c[0] in ('new_change', '__init__'):
            infile = False
        if infile and c[0] == 'write_meta' and rng.random() < .04:
            dropped_meta += 1
            continue
        final.append(c)
        if c[0] in ('__init__', 'new_change') and rng.random() < .2:
            nxt = rng.choice([
                ('empty', ['preamble', ''], {'preamble_indent': 2,
                                             'preamble_mimetype':
                                             'text/plain'}),
                ('empty', ['meta', {}], {'meta_encoding': 'utf-16'})])
            final.append(nxt)
        if c[0] == 'new_file' and rng.random() < .15:
            final.append(('empty', ['diff', b''], {'diff_type': 'binary'}))
    # an 'empty' followed by a real call for the same section is overwritten
    clean = []
    for i, c in enumerate(final):
        if c[0] == 'empty':
            sec = c[1][0]
            j = i + 1
            clash = False
            while j < len(final) and final[j][0] not in (
                    'new_change', 'new_file'):
                if final[j][0] == 'write_' + sec:
                    clash = True
                j += 1
            if clash:
                continue
        clean.append(c)
    return clean, not skip_files and dropped_meta == 0


DEFAULTS = {'preamble': ({}, None), 'meta': ({'format': 'json'}, {}),
            'diff': ({}, None)}
CLS = {'preamble': 'DiffXPreambleSection', 'meta': 'DiffXMetaSection',
       'diff': 'DiffXFileDiffSection', 'change': 'DiffXChangeSection',
       'file': 'DiffXFileSection', 'diffx': 'DiffX'}


def expected_tree(records):
    """Snapshot (format of snap()) of the tree the documented rules give
    for a record sequence; written from the statement, not from dom/."""
    def content(level, name):
        o, c = DEFAULTS[name]
        return {'cls': CLS[name], 'id': '.' * level + name,
                'options': dict(o), 'content': copy.deepcopy(c)}

    def container(level, name, options):
        subs = [content(level + 1, 'preamble'), content(level + 1, 'meta')] \
            if name != 'file' else [content(level + 1, 'meta'),
                                    content(level + 1, 'diff')]
        return {'cls': CLS[name],
                'id': 'None' if name == 'diffx' else '.' * level + name,
                'options': dict(options), 'sub': subs}
    root = None
    stack = []
    for r in records:
        t, lvl = r['type'], r['level']
        opts = dict(r['options'])
        if t in ('diffx', 'change', 'file'):
            node = container(lvl, t, opts)
            if t == 'diffx':
                root = node
                stack = [node]
            else:
                stack = stack[:lvl]
                stack[-1]['sub'].append(node)
                stack.append(node)
        else:
            opts.pop('length', None)
            parent = stack[lvl - 1]
            sec = [x for x in parent['sub']
                   if x['id'] == '.' * lvl + t][0]
            sec['options'] = opts
            sec['content'] = r[{'preamble': 'text', 'meta': 'metadata',
                                'diff': 'diff'}[t]]
    return root


def c05(seed, n):
    from props.native_gen import random_calls
    from props.native_spec import SpecWriter
    rng = random.Random(seed)
    evals = 0
    skipped = 0
    unenc = 0
    bad_indent = 0
    for _ in range(n):
        calls, strict = vary_calls(rng, random_calls(rng))
        how = rng.randrange(2)
        try:
            sw = SpecWriter()
            sw.replay([c for c in copy.deepcopy(calls) if c[0] != 'empty'])
            sb = b''.join(sw.out)
        except (UnicodeError, LookupError):
            unenc += 1
            continue
        try:
            t = tree_from_calls(calls, how)
        except Exception as e:  # noqa
            return evals, {'error': 'building the tree raised %s: %s' % (
                type(e).__name__, e), 'calls': repr(calls)[:1500]}
        evals += 1
        if len(calls) > 1:
            note_case('tree', sb)
        if rng.random() < .06:
            # an indentation no file can carry: the tree must either not
            # serialise, or serialise to something that parses
            secs = [x for x in [t] + t.changes if x.preamble]
            if secs:
                sec = rng.choice(secs)
                sec.preamble_section.options['indent'] = rng.choice(
                    [-3, -1, True])
                try:
                    bb = t.to_bytes()
                except BaseDiffXError:
                    bad_indent += 1
                    continue
                except Exception as e:  # noqa
                    return evals, {'error': 'to_bytes with indent %r raised '
                                   '%s' % (sec.preamble_indent,
                                           type(e).__name__)}
                try:
                    DiffX.from_bytes(bb)
                except Exception as e:  # noqa
                    return evals, {
                        'error': 'a tree with preamble indent %r serialises '
                                 'without error but the result cannot be '
                                 'parsed: %s: %s' % (
                                     sec.preamble_section.options['indent'],
                                     type(e).__name__, e),
                        'calls': repr(calls)[:1500]}
                continue
        before = snap(t)
        try:
            b = t.to_bytes()
        except DiffXSectionOrderError:
            if strict:
                return evals, {'error': 'to_bytes rejected a tree whose '
                               'shape the hierarchy allows',
                               'calls': repr(calls)[:1500]}
            skipped += 1
            continue
        except Exception as e:  # noqa
            return evals, {'error': 'to_bytes raised %s: %s although the '
                           'specification serialises the tree' % (
                               type(e).__name__, e),
                           'calls': repr(calls)[:1500]}
        if b != sb:
            i = next((k for k in range(min(len(b), len(sb)))
                      if b[k] != sb[k]), min(len(b), len(sb)))
            return evals, {'error': 'to_bytes differs from the canonical '
                           'serialisation at byte %d: %r vs %r' % (
                               i, b[max(0, i - 40):i + 40],
                               sb[max(0, i - 40):i + 40]),
                           'calls': repr(calls)[:1500]}
        if snap(t) != before:
            return evals, {'error': 'to_bytes changed the tree'}
        try:
            t2 = DiffX.from_bytes(b)
        except Exception as e:  # noqa
            return evals, {'error': 'from_bytes(to_bytes(tree)) raised %s: '
                           '%s' % (type(e).__name__, e),
                           'calls': repr(calls)[:1500]}
        exp = expected_tree(sw.records)
        got = snap(t2)
        if got != exp:
            return evals, {'error': 'parsed tree differs from the original '
                           'after normalisation: %s' % first_diff(exp, got),
                           'calls': repr(calls)[:1500]}
        # C06 (canonical): parse + serialise is the identity on bytes
        try:
            b2 = t2.to_bytes()
        except Exception as e:  # noqa
            return evals, {'error': 're-serialising a parsed canonical file '
                           'raised %s: %s' % (type(e).__name__, e),
                           'calls': repr(calls)[:1500]}
        if b2 != b:
            i = next((k for k in range(min(len(b), len(b2)))
                      if b[k] != b2[k]), min(len(b), len(b2)))
            return evals, {'error': 'from_bytes(b).to_bytes() != b at byte '
                           '%d: %r vs %r' % (i, b2[max(0, i - 40):i + 40],
                                             b[max(0, i - 40):i + 40]),
                           'calls': repr(calls)[:1500]}
    return evals, None, [], {'shape_rejected_by_writer': skipped,
                             'not_encodable': unenc,
                             'bad_indent_rejected': bad_indent}


def first_diff(a, b, path=''):
    if type(a) is not type(b):
        return '%s: %r vs %r' % (path, a, b)
    if isinstance(a, dict):
        for k in sorted(set(a) | set(b), key=str):
            if k not in a or k not in b:
                return '%s.%s: only on one side (%r / %r)' % (
                    path, k, a.get(k), b.get(k))
            d = first_diff(a[k], b[k], '%s.%s' % (path, k))
            if d:
                return d
        return None
    if isinstance(a, list):
        if len(a) != len(b):
            return '%s: length %d vs %d' % (path, len(a), len(b))
        for i, (x, y) in enumerate(zip(a, b)):
            d = first_diff(x, y, '%s[%d]' % (path, i))
            if d:
                return d
        return None
    return None if a == b else '%s: %r vs %r' % (path, a, b)


def contents(records):
    out = []
    for r in records:
        c = [r[k] for k in ('text', 'metadata', 'diff') if k in r]
        out.append((r['section'], c[0] if c else None))
    return out


def c06(seed, n):
    """Foreign well-formed files: accepted => re-serialisable, same section
    contents, fixed point."""
    from props import native_C03 as F
    from props.native_gen import random_file
    rng = random.Random(seed)
    evals = 0
    rejected = {}
    # canonical files (streaming-writer output): the identity on bytes
    for _ in range(n // 2):
        calls, b = random_file(rng)
        evals += 1
        note_case('canonical', b)
        try:
            b2 = DiffX.from_bytes(b).to_bytes()
        except Exception as e:  # noqa
            return evals, {'error': 'canonical file: parse + serialise '
                           'raised %s: %s' % (type(e).__name__, e),
                           'calls': repr(calls)[:1500]}
        if b2 != b:
            i = next((k for k in range(min(len(b), len(b2)))
                      if b[k] != b2[k]), min(len(b), len(b2)))
            return evals, {'error': 'canonical file: from_bytes(b).to_bytes()'
                           ' != b at byte %d: %r vs %r' % (
                               i, b2[max(0, i - 40):i + 40],
                               b[max(0, i - 40):i + 40]),
                           'calls': repr(calls)[:1500]}
    for _ in range(n):
        fb = F.make_file(rng)
        data = b''.join(fb.out)
        try:
            t = DiffX.from_bytes(data)
        except BaseDiffXError as e:
            rejected[type(e).__name__] = rejected.get(type(e).__name__, 0) + 1
            continue
        except Exception as e:  # noqa
            return evals, {'error': 'from_bytes raised %s: %s' % (
                type(e).__name__, e), 'data': repr(data)[:1500]}
        evals += 1
        note_case('foreign', data)
        try:
            b2 = t.to_bytes()
        except Exception as e:  # noqa
            return evals, {'error': 're-serialising an accepted foreign file '
                           'raised %s: %s' % (type(e).__name__, e),
                           'data': repr(data)[:1500]}
        r1, e1 = F.read(data)
        r2, e2 = F.read(b2)
        if e2 or contents(r1) != contents(r2):
            return evals, {'error': 're-serialised file carries different '
                           'section contents: %s' % (
                               e2 or first_diff(
                                   [list(x) for x in contents(r1)],
                                   [list(x) for x in contents(r2)])),
                           'data': repr(data)[:1500]}
        try:
            b3 = DiffX.from_bytes(b2).to_bytes()
        except Exception as e:  # noqa
            return evals, {'error': 'second cycle raised %s: %s' % (
                type(e).__name__, e), 'data': repr(data)[:1500]}
        if b3 != b2:
            return evals, {'error': 'not a fixed point: second cycle '
                           'changed the bytes', 'data': repr(data)[:1500]}
    return evals, None, [], rejected


def main():
    import logging
    logging.disable(logging.CRITICAL)
    req = json.load(sys.stdin)
    fn = {'c19': c19, 'c18': c18, 'c13': c13, 'c05': c05,
          'c06': c06}[req['op']]
    r = fn(req['seed'], req['n'])
    e, w = r[0], r[1]
    out = {'evaluations': e, 'witness': w,
           'distinct_nontrivial': len(DISTINCT)}
    if len(r) > 2:
        out['known_class_hits'] = len(r[2])
        out['known_class_sample'] = r[2][:2]
    if len(r) > 3:
        out['skipped'] = r[3]
    json.dump(out, sys.stdout)


if __name__ == '__main__':
    main()
