"""Shared driver for the per-property checks.

Exit codes: 0 held / 1 VIOLATION (line printed) / 2 UNDECIDED / 3 CHECKER-ERROR
"""
import hashlib
import json
import os
import subprocess
import sys
import time

ROOT = os.path.dirname(os.path.dirname(os.path.abspath(__file__)))
sys.path.insert(0, ROOT)

from pyvc import smt, verify, extract  # noqa: E402

VENV_PY = '/venv/bin/python'
REPO_PY = extract.REPO_PY
KNOWN_FILE = os.path.join(ROOT, 'known_findings.json')

BASE_ASSUMPTIONS = [
    'A-py: pyvc encoding of the Python subset (evaluation order, truthiness, '
    'slicing, %-formatting, exceptions); home-made, defended by differential '
    'tests (setup_cmd) and seeded mutants, not by a proof',
    'A-smt: z3 5.1.0 / cvc5 1.0.3 / cvc5 1.4.0 are sound; unsat answers are '
    'believed',
    'Python int = mathematical integer (exact); places where ints cross into '
    'C (read(n), seq repetition, regex counts, int() digit limit) carry '
    'explicit range conditions',
]


def load_known():
    try:
        with open(KNOWN_FILE) as f:
            return json.load(f)
    except FileNotFoundError:
        return []


def native(module, payload, timeout=600):
    """Run props/native_<module>.py under the interpreter the pinned tests
    use, against /repo's working tree.  Returns parsed JSON."""
    env = dict(os.environ)
    env['PYTHONPATH'] = REPO_PY + os.pathsep + ROOT
    env['PYTHONDONTWRITEBYTECODE'] = '1'
    p = subprocess.run([VENV_PY, '-m', 'props.native_' + module],
                       input=json.dumps(payload), capture_output=True,
                       text=True, env=env, cwd=ROOT, timeout=timeout)
    if p.returncode != 0:
        raise RuntimeError('native %s failed: %s' % (module, p.stderr[-2000:]))
    return json.loads(p.stdout)


class ObRec(object):
    """Picklable obligation record (SMT text instead of z3 objects)."""

    def __init__(self, ob):
        self.id = ob.id
        self.label = ob.label
        self.kind = ob.kind
        self.where = ob.where
        self.path = ob.path
        self.goal = str(ob.goal)[:600]
        self.assumptions = [None] * len(ob.assumptions)
        self.trivial = ob.trivially_true() if ob.kind != 'canary' else False
        self.text = None if self.trivial else ob.smt2()
        self._slices = None if (self.trivial or ob.kind == 'canary') \
            else ob.slices()
        self.result = None

    def slices(self):
        return self._slices or [('full', self.text)]

    def smt2(self):
        return self.text

    def trivially_true(self):
        return self.trivial


def _verify_job(job):
    """Child-process worker: build an engine, verify one function variant,
    return picklable records."""
    build, name, tag = job
    import traceback
    try:
        eng = build(tag)
        v = eng.verify(name)
        extra = []
        if getattr(eng, 'post_verify', None):
            extra = eng.post_verify(v)
        recs = []
        for ob in v.obligations:
            r = ObRec(ob)
            if tag is not None:
                r.id = '%s[%s]' % (r.id, tag)
            recs.append(r)
        return {'name': name, 'tag': tag, 'fi': v.fi.describe(),
                'undecided': v.undecided, 'paths': v.paths,
                'exit_kinds': v.exit_kinds, 'obligations': recs,
                'time_s': v.time_s, 'error': None, 'extra': extra}
    except KeyError as e:
        return {'name': name, 'tag': tag, 'error': None, 'fi': None,
                'undecided': ['function not found in the working tree '
                              '(%s)' % e], 'obligations': [], 'paths': 0,
                'exit_kinds': {}, 'time_s': 0}
    except Exception:
        return {'name': name, 'tag': tag, 'fi': None, 'undecided': [],
                'obligations': [], 'paths': 0, 'exit_kinds': {}, 'time_s': 0,
                'error': traceback.format_exc()[-1500:]}


class Check(object):
    def __init__(self, pid, argv=None):
        self.pid = pid
        self.t0 = time.time()
        self.tier = os.environ.get('VERIF_TIER', 'quick')
        args = list(argv if argv is not None else sys.argv[1:])
        if '--tier' in args:
            self.tier = args[args.index('--tier') + 1]
        self.replay_file = None
        if '--replay' in args:
            self.replay_file = args[args.index('--replay') + 1]
        self.seed = int(os.environ.get('VERIF_SEED', '0') or 0)
        self.functions = []
        self.obligations = []      # (Obligation)
        self.extra_obligations = []  # dicts: id, status, solver, time, text
        self.undecided = []
        self.errors = []
        self.violations = []       # dict(obligation, witness, replay, how)
        self.known_hits = []
        self.bounded = []
        self.assumptions = list(BASE_ASSUMPTIONS)
        self.trusted = []
        self.samples = []
        self.canaries_sat = 0
        self.notes = []
        self.solver_time = 0.0
        self.backends = {}
        self.known = [k for k in load_known() if k.get('property') == pid]
        self.inlined = set()

    # ------------------------------------------------------------------
    def verify_functions(self, engine, names, timeout_s=30, jobs=12,
                         solvers=('z3', 'cvc5')):
        verdicts = []
        for name in names:
            try:
                v = engine.verify(name)
            except KeyError as e:
                self.undecided.append('%s: function not found in the '
                                      'working tree (%s)' % (name, e))
                continue
            except Exception as e:   # engine crash = checker error
                import traceback
                self.errors.append('%s: engine error %s' % (
                    name, traceback.format_exc()[-1500:]))
                continue
            verdicts.append(v)
            self.functions.append(v.fi.describe())
            for u in v.undecided:
                self.undecided.append('%s: %s' % (name, u))
        # dedupe identical VCs (loop-init obligations recur on every path)
        uniq = {}
        allobs = []
        for v in verdicts:
            for ob in v.obligations:
                if ob.kind == 'canary':
                    allobs.append(ob)
                    continue
                key = (ob.label, smt.sha(ob.smt2()))
                if key in uniq:
                    continue
                uniq[key] = ob
                allobs.append(ob)
        verify.discharge([o for o in allobs if o.kind != 'canary'],
                         timeout_s=timeout_s, jobs=jobs, solvers=solvers)
        sat, vac = verify.check_canaries(allobs, jobs=jobs)
        self.canaries_sat += sat
        for v in verdicts:
            can = [o for o in v.obligations if o.kind == 'canary']
            if v.undecided:
                continue      # outside the subset: UNDECIDED, not an error
            if not can:
                self.errors.append('%s: no path reaches an exit (vacuous '
                                   'contract?)' % v.name)
            elif all(o.result.status == smt.UNSAT for o in can):
                self.errors.append('%s: every exit path is contradictory '
                                   '(vacuous requires)' % v.name)
            if not [o for o in v.obligations if o.kind != 'canary']:
                self.errors.append('%s: zero obligations generated' % v.name)
        self.obligations.extend(o for o in allobs if o.kind != 'canary')
        for o in allobs:
            if o.kind != 'canary' and o.result is not None:
                self.solver_time += o.result.time_s
                self.backends[o.result.solver] = self.backends.get(
                    o.result.solver, 0) + 1
        return verdicts

    def verify_parallel(self, build, jobs, timeout_s=30, solver_jobs=12,
                        solvers=('z3', 'cvc5'), procs=10, keep=None):
        """jobs: list of (function name, variant tag).  `build(tag)` must
        return an Engine with the contracts registered (top-level function,
        picklable).  Symbolic execution runs in child processes."""
        import multiprocessing as mp
        ctxm = mp.get_context('fork')
        with ctxm.Pool(min(procs, len(jobs))) as pool:
            outs = pool.map(_verify_job, [(build, n, t) for n, t in jobs])
        allobs = []
        uniq = set()
        seen_fi = set()
        for o in outs:
            nm = o['name'] + ('[%s]' % o['tag'] if o['tag'] is not None
                              else '')
            if o['error']:
                self.errors.append('%s: engine error %s' % (nm, o['error']))
                continue
            if o['fi'] and o['fi']['name'] not in seen_fi:
                seen_fi.add(o['fi']['name'])
                self.functions.append(o['fi'])
            for u in o['undecided']:
                self.undecided.append('%s: %s' % (nm, u))
            for (eid, ok, desc, wit) in o.get('extra', []) or []:
                self.add_eval_obligation('%s[%s]' % (eid, o['tag']), ok,
                                         desc, wit)
            can = [r for r in o['obligations'] if r.kind == 'canary']
            real = [r for r in o['obligations'] if r.kind != 'canary']
            if not o['undecided']:
                if not can:
                    self.errors.append('%s: no path reaches an exit' % nm)
                if not real:
                    self.errors.append('%s: zero obligations generated' % nm)
            for r in o['obligations']:
                if keep is not None and r.kind != 'canary' and \
                        not keep(r.label):
                    continue      # this check claims a subset of the labels
                if r.kind != 'canary':
                    key = (r.label, r.text and smt.sha(r.text), o['tag'])
                    if key in uniq:
                        continue
                    uniq.add(key)
                allobs.append(r)
        real = [r for r in allobs if r.kind != 'canary']
        verify.discharge(real, timeout_s=timeout_s, jobs=solver_jobs,
                         solvers=solvers)
        sat, vac = verify.check_canaries(allobs, jobs=solver_jobs)
        self.canaries_sat += sat
        byfn = {}
        for r in allobs:
            if r.kind == 'canary':
                byfn.setdefault(r.id.split('#')[0], []).append(r)
        for fn, can in byfn.items():
            if all(c.result.status == smt.UNSAT for c in can):
                self.errors.append('%s: every exit path is contradictory '
                                   '(vacuous requires)' % fn)
        self.obligations.extend(real)
        for o in real:
            if o.result is not None:
                self.solver_time += o.result.time_s
                self.backends[o.result.solver] = self.backends.get(
                    o.result.solver, 0) + 1
        return outs

    def add_smt_obligation(self, oid, assertions_unsat, timeout_s=30,
                           solvers=('z3', 'cvc5'), describe=''):
        """A stand-alone lemma/table obligation: the given assertions must
        be unsat."""
        text = smt.to_smt2(assertions_unsat)
        res = smt.solve_text(text, timeout_s=timeout_s, solvers=solvers)
        self.extra_obligations.append({'id': oid, 'status': res.status,
                                       'solver': res.solver,
                                       'time_s': round(res.time_s, 3),
                                       'describe': describe,
                                       'model': res.model,
                                       'raw': res.raw[:1500]})
        self.solver_time += res.time_s
        self.backends[res.solver] = self.backends.get(res.solver, 0) + 1
        return res

    def add_eval_obligation(self, oid, ok, describe='', witness=None):
        """An obligation discharged by exhaustive evaluation over a finite
        domain (reported separately from SMT obligations)."""
        self.extra_obligations.append({'id': oid,
                                       'status': 'unsat' if ok else 'sat',
                                       'solver': 'exhaustive-evaluation',
                                       'time_s': 0.0, 'describe': describe,
                                       'model': witness or {}, 'raw': ''})
        self.backends['exhaustive-evaluation'] = self.backends.get(
            'exhaustive-evaluation', 0) + 1

    def add_lean_obligation(self, oid, leanfile, theorems, describe=''):
        """A lemma about the specification vocabulary (not about the code)
        proved in Lean 4 and re-checked by its kernel on every run.  The
        file must elaborate without error, without `sorry`, and `#print
        axioms` of each named theorem may list only Lean's standard axioms.
        One obligation per theorem; anything else is `unknown` (UNDECIDED),
        never a violation."""
        import re as _re
        path = os.path.join(ROOT, leanfile)
        t0 = time.time()
        try:
            pr = subprocess.run(['lean', path], capture_output=True,
                                text=True, timeout=600)
            out, rc = pr.stdout + pr.stderr, pr.returncode
        except Exception as e:          # lean missing / timeout
            out, rc = 'lean not run: %r' % (e,), -1
        dt = time.time() - t0
        src = open(path).read()
        allowed = {'propext', 'Quot.sound', 'Classical.choice'}
        for th in theorems:
            m = _re.search(r"'%s' (does not depend on any axioms|depends on "
                           r"axioms: \[([^\]]*)\])" % _re.escape(th), out)
            axs = set(a.strip() for a in (m.group(2) or '').split(',')
                      if a.strip()) if m else None
            ok = (rc == 0 and m is not None and axs <= allowed
                  and 'sorry' not in out and 'error' not in out
                  and _re.search(r'\bsorry\b|\baxiom\b|\badmit\b',
                                 _re.sub(r'/-.*?-/|--[^\n]*', '', src,
                                         flags=_re.S)) is None
                  and _re.search(r'theorem\s+%s\b' % _re.escape(th), src))
            self.extra_obligations.append({
                'id': oid + '.' + th, 'status': 'unsat' if ok else 'unknown',
                'solver': 'lean-4-kernel', 'time_s': round(dt, 2),
                'describe': describe + ' [%s, theorem %s, axioms %s]' % (
                    leanfile, th, sorted(axs) if axs is not None else '?'),
                'model': {}, 'raw': '' if ok else out[:1500]})
            self.backends['lean-4-kernel'] = self.backends.get(
                'lean-4-kernel', 0) + 1
            if not ok:
                self.undecided.append('%s.%s: Lean did not accept the lemma'
                                      % (oid, th))
        self.solver_time += dt

    # ------------------------------------------------------------------
    def failed_obligations(self):
        out = []
        for ob in self.obligations:
            r = ob.result
            if r is None:
                out.append((ob.id, 'unknown', {}, 'not run', ob))
            elif r.status != smt.UNSAT:
                out.append((ob.id, r.status, r.model, r.raw, ob))
        for eo in self.extra_obligations:
            if eo['status'] != 'unsat':
                out.append((eo['id'], eo['status'], eo['model'], eo['raw'],
                            None))
        return out

    def write_replay(self, oid, payload):
        d = os.path.join(ROOT, 'replays', self.pid)
        os.makedirs(d, exist_ok=True)
        safe = ''.join(ch if ch.isalnum() or ch in '._-' else '_'
                       for ch in oid)[:120]
        path = os.path.join(d, safe + '.json')
        payload = dict(payload)
        payload.setdefault('property', self.pid)
        payload.setdefault('obligation', oid)
        with open(path, 'w') as f:
            json.dump(payload, f, indent=1, default=repr)
        return os.path.relpath(path, ROOT)

    def match_known(self, oid, witness_class=None):
        base = oid.split('@')[0]
        for k in self.known:
            if k.get('status') != 'known':
                continue
            if k.get('obligation') == base and (
                    k.get('witness_class') in (None, witness_class)):
                return k
        return None

    def report_violation(self, oid, replay_payload, found_input,
                         witness_class=None, what=''):
        k = self.match_known(oid, witness_class)
        if k is not None:
            self.known_hits.append((k, oid))
            return
        path = self.write_replay(oid, replay_payload)
        self.violations.append({'obligation': oid, 'replay': path,
                                'found_input': bool(found_input),
                                'what': what})

    def handle_failed(self, find_witness, function=''):
        """Policy for undischarged obligations (DESIGN 3.1):
          * a witness replayed on the real code -> VIOLATION with replay
          * `sat` post-condition / invariant / call-precondition obligation
            without a reproducing input -> VIOLATION ... no-failing-input-found
          * `sat` exception-freedom obligation that does not reproduce, and
            every `unknown` -> UNDECIDED (never a VIOLATION line)
        find_witness(oid, status, model) -> dict(witness=..., native=...) or
        None."""
        failed = self.failed_obligations()
        reported = set()
        for oid, status, model, raw, ob in failed:
            base = oid.split('@')[0]
            w = None
            try:
                w = find_witness(oid, status, model)
            except Exception as e:     # replay machinery failure
                self.notes.append('replay failed for %s: %s' % (oid, e))
            kind = getattr(ob, 'kind', 'extra') if ob is not None else 'extra'
            payload = {'function': function, 'status': status,
                       'solver_output': (raw or '')[:3000],
                       'model': {k: repr(v) for k, v in (model or {}).items()},
                       'where': getattr(ob, 'where', ''),
                       'goal': str(getattr(ob, 'goal', ''))[:1500]}
            if w:
                payload.update(w)
                if base in reported:
                    continue
                reported.add(base)
                self.report_violation(oid, payload, True,
                                      witness_class=w.get('witness_class'),
                                      what='%s is %s; failing input replayed '
                                           'on the real code' % (oid, status))
            elif status == smt.SAT and kind not in ('exc-freedom',):
                if base in reported:
                    continue
                reported.add(base)
                self.report_violation(oid, payload, False,
                                      what='%s is sat (obligation that holds '
                                           'on the pinned tree)' % oid)
            # else: stays undecided (finish() prints UNDECIDED lines)

    # ------------------------------------------------------------------
    def finish(self, level, explanation, rule='', checker_cmd=None,
               extra_cov=None):
        n_obl = len(self.obligations) + len(self.extra_obligations)
        failed = self.failed_obligations()
        discharged = n_obl - len(failed)
        wall = time.time() - self.t0
        printed_known = set()
        for k, oid in self.known_hits:
            key = k.get('obligation')
            if key in printed_known:
                continue
            printed_known.add(key)
            print('KNOWN-FINDING: property=%s %s' % (self.pid, k['what']))
        for v in self.violations:
            tail = '' if v['found_input'] else ' no-failing-input-found'
            print('VIOLATION property=%s replay=%s%s' % (
                self.pid, v['replay'], tail))
            print('  obligation %s: %s' % (v['obligation'], v['what']))
        for u in sorted(set(self.undecided))[:15]:
            print('UNDECIDED %s' % u)
        for e in self.errors:
            print('CHECKER-ERROR %s' % e)
        samples = list(self.samples)
        for ob in self.obligations[:3]:
            samples.append({'obligation': ob.id, 'kind': ob.kind,
                            'goal': str(ob.goal)[:400],
                            'n_assumptions': len(ob.assumptions),
                            'status': ob.result.status if ob.result else None,
                            'solver': ob.result.solver if ob.result else None})
        for eo in self.extra_obligations[:3]:
            samples.append({'obligation': eo['id'], 'status': eo['status'],
                            'solver': eo['solver'],
                            'describe': eo['describe'][:400]})
        all_ok = (not failed and not self.undecided and not self.errors
                  and not self.violations and not self.known_hits)
        lvl = level if (level != 'proof' or all_ok) else 'other'
        cov = {
            'obligations': n_obl,
            'discharged': discharged,
            'checker_cmd': checker_cmd or './check %s --tier %s' % (
                self.pid, self.tier),
            'trusted_base': self.trusted + self.assumptions,
            'functions_under_contract': self.functions,
            'backends': self.backends,
            'solver_time_s': round(self.solver_time, 2),
            'canary_paths_satisfiable': self.canaries_sat,
            'bounded_standins': self.bounded,
            'samples': samples,
            'explanation': explanation,
            'undecided': self.undecided[:20],
            'known_findings_hit': [k['what'] for k, _ in self.known_hits],
            'failed_obligations': [f[0] for f in failed][:50],
        }
        # measured counts: evaluations = obligations generated + bounded
        # cases run; distinct_nontrivial = obligations that are NOT settled
        # by the simplifier, counted once per distinct SMT text, + the
        # distinct non-trivial bounded cases the native layers counted
        ev = sum(b.get('evaluations', 0) for b in self.bounded)
        dn = sum(b.get('distinct_nontrivial', 0) for b in self.bounded)
        texts = set()
        for ob in self.obligations:
            t = getattr(ob, 'text', None)
            if t:
                texts.add(smt.sha(t))
        nontriv = len(texts) + len([e for e in self.extra_obligations])
        cov['evaluations'] = n_obl + ev
        cov['distinct_nontrivial'] = nontriv + dn
        cov['distinct_nontrivial_obligations'] = nontriv
        cov['distinct_nontrivial_bounded_cases'] = dn
        cov['rule'] = rule or (
            'obligations: one per (function, path, clause); an obligation '
            'is non-trivial when the simplifier alone does not settle it, '
            'distinct when its SMT text is; bounded cases: generated as '
            'described in bounded_standins, distinct / non-trivial as '
            'counted by the native layer (hash of the generated input)')
        if extra_cov:
            cov.update(extra_cov)
        evidence = {
            'property_id': self.pid, 'tier': self.tier, 'seed': self.seed,
            'level': lvl, 'coverage': cov,
            'assumptions': self.assumptions,
            'wall_s': round(wall, 2),
            'violations': len(self.violations),
        }
        # (VERIF_EVIDENCE_DIR: experiments on scratch copies of the
        # repository must not overwrite the evidence of the real tree)
        evdir = os.environ.get('VERIF_EVIDENCE_DIR') or os.path.join(
            ROOT, 'evidence')
        os.makedirs(evdir, exist_ok=True)
        with open(os.path.join(evdir, self.pid + '.json'),
                  'w') as f:
            json.dump(evidence, f, indent=1, default=repr)
        print('%s: %d/%d obligations discharged, %d functions, level=%s, '
              '%.1fs' % (self.pid, discharged, n_obl, len(self.functions),
                         lvl, wall))
        if self.violations:
            return 1
        if self.errors:
            return 3
        # failed-but-not-reported obligations are undecided ones
        known_obls = set(k.get('obligation') for k, _ in self.known_hits)
        unreported = [f for f in failed
                      if not any(v['obligation'].split('@')[0] ==
                                 f[0].split('@')[0] for v in self.violations)
                      and f[0].split('@')[0] not in known_obls]
        if self.undecided or unreported:
            shown = set()
            for f in unreported:
                b = f[0].split('@')[0]
                if b in shown:
                    continue
                shown.add(b)
                print('UNDECIDED obligation=%s status=%s' % (f[0], f[1]))
            return 2
        return 0
