"""Independent serializer / reader oracle derived from the specification
(docs/spec) and the statements of C01-C03.  Used natively only."""
import codecs
import json

NLTEXT = {'unix': '\n', 'dos': '\r\n'}
DEPTH = {'diffx': 1, 'change': 2, 'file': 3}


def enc_nl(enc, kind):
    """BOM-free encoding of the newline (incremental encoder after a first
    character: independent of spelling and of the library)."""
    e = codecs.getincrementalencoder(codecs.lookup(enc or 'ascii').name)()
    e.encode('a')
    return e.encode(NLTEXT[kind])


def detect_kind(content, nl_unix, nl_dos):
    """First-line detection (section-format.rst)."""
    i = content.find(nl_unix)
    if i != -1 and content[:i + len(nl_unix)].endswith(nl_dos):
        return 'dos'
    return 'unix'


def split_keep(data, nl):
    out = []
    pos = 0
    while True:
        i = data.find(nl, pos)
        if i == -1:
            if pos < len(data):
                out.append(data[pos:])
            return out
        out.append(data[pos:i + len(nl)])
        pos = i + len(nl)


def prepare(content, enc, kind, indent):
    """-> (block, kind').  content: str (needs enc) or bytes."""
    if isinstance(content, str):
        k = kind or detect_kind(content, '\n', '\r\n')
        data = content.encode(enc)
    else:
        k = kind or detect_kind(content, enc_nl(enc, 'unix'),
                                enc_nl(enc, 'dos'))
        data = content
    nl = enc_nl(enc, k)
    if not data.endswith(nl):
        data += nl
    if indent:
        data = b''.join(b' ' * indent + line for line in split_keep(data, nl))
    return data, k


def header(sid, opts):
    parts = ['%s=%s' % (k, v) for k, v in sorted(opts.items())
             if v is not None]
    s = '#%s:' % sid
    if parts:
        s += ' ' + ', '.join(parts)
    return (s + '\n').encode('ascii')


class SpecWriter(object):
    """Replays a call sequence; produces bytes and expected records."""

    def __init__(self):
        self.out = []
        self.records = []
        self.eff = []          # effective encodings of open containers
        self.depth = 0
        self.line = 0

    def _rec(self, sid, level, options, **content):
        r = {'level': level, 'line': self.line, 'options': options,
             'section': sid, 'type': sid.lstrip('.')}
        r.update(content)
        self.records.append(r)

    def container(self, name, level, encoding=None, **extra):
        parent = self.eff[level - 1] if level > 0 else encoding
        self.eff = self.eff[:level] + [encoding or parent]
        self.depth = level + 1
        sid = '.' * level + name
        opts = dict(extra, encoding=encoding)
        self.out.append(header(sid, opts))
        self._rec(sid, level, {k: v for k, v in opts.items()
                               if v is not None})
        self.line += 1

    def content(self, name, value, encoding=None, inherit=True, **opts):
        level = self.depth
        sid = '.' * level + name
        eff = encoding or (self.eff[-1] if inherit else None)
        indent = opts.pop('indent', None)
        kind = opts.pop('line_endings', None)
        write_kind = opts.pop('_write_kind', True)
        block, k = prepare(value, eff, kind, indent)
        hopts = dict(opts, encoding=encoding, indent=indent,
                     length=len(block))
        if write_kind:
            hopts['line_endings'] = k
        self.out.append(header(sid, hopts) + block)
        ropts = {a: b for a, b in hopts.items() if b is not None}
        nl = enc_nl(eff, k)
        nlines = len(split_keep(block, nl))
        if name == 'meta':
            self._rec(sid, level, ropts, metadata=json.loads(value))
        elif name == 'preamble':
            text = value if value.endswith(NLTEXT[k]) else value + NLTEXT[k]
            self._rec(sid, level, ropts, text=text)
        else:
            d = value if value.endswith(nl) else value + nl
            self._rec(sid, level, ropts, diff=d)
        self.line += 1 + nlines

    def replay(self, calls):
        for name, args, kw in calls:
            kw = dict(kw)
            if name == '__init__':
                self.container('diffx', 0, encoding=kw.get('encoding',
                                                           'utf-8'),
                               version=kw.get('version', '1.0'))
            elif name == 'new_change':
                self.container('change', 1, **kw)
            elif name == 'new_file':
                self.container('file', 2, **kw)
            elif name == 'write_preamble':
                kw.setdefault('indent', 4)
                self.content('preamble', args[0], **kw)
            elif name == 'write_meta':
                text = json.dumps(args[0], indent=4, sort_keys=True,
                                  separators=(',', ': '))
                fmt = kw.pop('meta_format', 'json')
                self.content('meta', text, format=fmt, _write_kind=False,
                             **kw)
            elif name == 'write_diff':
                t = kw.pop('diff_type', None)
                self.content('diff', args[0], inherit=False, type=t, **kw)
        return b''.join(self.out), self.records
