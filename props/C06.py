"""C06 - parse then re-serialise: identical on canonical files, idempotent
on others."""
import sys

from props.common import Check, native
from props import dom_common
from contracts import dom_scenarios as DS

WRITER_FUNCS = [
    'pydiffx.dom.objects.DiffX.to_bytes',
    'pydiffx.dom.writer.DiffXDOMWriter.write_stream',
    'pydiffx.dom.writer.DiffXDOMWriter._write_section',
    'pydiffx.dom.writer.DiffXDOMWriter._write_container_section',
    'pydiffx.dom.writer.DiffXDOMWriter._write_content_section',
    'pydiffx.dom.writer.DiffXDOMWriter._get_options']
READER_FUNCS = [
    'pydiffx.dom.reader.DiffXDOMReader.parse',
    'pydiffx.dom.reader.DiffXDOMReader._read_main_section',
    'pydiffx.dom.reader.DiffXDOMReader._read_change_section',
    'pydiffx.dom.reader.DiffXDOMReader._read_file_section',
    'pydiffx.dom.reader.DiffXDOMReader._read_preamble_section',
    'pydiffx.dom.reader.DiffXDOMReader._read_meta_section',
    'pydiffx.dom.reader.DiffXDOMReader._read_diff_section',
    'pydiffx.dom.reader.DiffXDOMReader._set_content_options']
COMPOSITION = [
    'COMPOSITION (not re-proved here): tree --(object-model writer: '
    'scenario obligations, this run)--> call sequence --(streaming writer: '
    'C02/C09 contracts)--> canonical bytes --(streaming reader: C01/C03/'
    'C04/C10-C12 contracts)--> records --(object-model reader: scenario '
    'obligations, this run)--> tree.  The two outer steps are discharged '
    'here for FIXED SHAPES with symbolic values; the inner steps are the '
    'other checks; the composed statement over whole trees is only '
    'exercised by the bounded layer',
    'the streaming writer is seen through a recording stub (every call '
    'with its bound arguments; no other effect); the streaming reader as '
    'an iterable of records of fixed length with symbolic fields',
    'expected call sequence: independent specification traversal of the '
    'tree snapshot (contracts/dom_scenarios.py expected_calls) with the '
    'writer API defaults and the option renaming table written by hand',
    'expected parsed tree: built in the driver with the public API '
    '(constructors, add_change/add_file, content setters, options '
    'clear/update), whose behaviour is the subject of C19']


def main():
    chk = Check('C06')
    if chk.replay_file:
        print(open(chk.replay_file).read()[:3000])
        return 1
    dom_common.describe_functions(chk, WRITER_FUNCS + READER_FUNCS)
    dom_common.run_scenarios(chk, DS.c06_scenarios(chk.tier)
                             + DS.c05_scenarios(chk.tier))
    chk.trusted += COMPOSITION
    state = {}

    def run_native(n):
        return native('dom', {'op': 'c06', 'seed': chk.seed, 'n': n},
                      timeout=3000)

    def find(oid, status, model):
        if 'r' not in state:
            state['r'] = run_native(1500)
        w = state['r']['witness']
        return {'witness': w, 'native': w} if w else None
    chk.handle_failed(find, function='pydiffx.dom')
    if not chk.violations:
        if 'r' not in state or chk.tier != 'quick':
            state['r'] = run_native(1500 if chk.tier == 'quick' else 40000)
        r = state['r']
        chk.bounded.append({
            'what': 'canonical files (random well-ordered streaming-writer '
                    'call sequences): from_bytes(b).to_bytes() == b; foreign '
                    'well-formed files from the independent C03 generator '
                    '(shuffled options, blank lines, CRLF headers, compact / '
                    '2-space JSON, omitted or extra optional options incl. '
                    'line_endings on metadata and type on diffs): accepted '
                    '=> re-serialises, same section contents when read '
                    'back, second cycle is a fixed point; rejected: %r'
                    % (r.get('skipped'),),
            'bound': '%d files' % r['evaluations'],
            'evaluations': r['evaluations'],
            'distinct_nontrivial': r.get('distinct_nontrivial', 0)})
        if r['witness']:
            chk.report_violation('bounded.reserialise',
                                 {'witness': r['witness']}, True,
                                 what=r['witness']['error'])
    return chk.finish(
        'other',
        'Scenario obligations on the object-model reader (options kept '
        'verbatim minus length, contents as reported) and on the '
        'object-model writer (every kept option is handed back to the '
        'streaming writer under the right argument name, sections in '
        'order, nothing else), for fixed shapes with symbolic values; '
        'byte identity on canonical files then follows from the C02 '
        'contract (the bytes are a function of the call sequence) and C01 '
        '(the records are the calls), and is exercised as a whole by the '
        'bounded layer only.')


if __name__ == '__main__':
    sys.exit(main())
