"""C20 - the syntax highlighter is lossless and tags every section header."""
import json
import sys

from props.common import Check, native


def main():
    chk = Check('C20')
    if chk.replay_file:
        rp = json.load(open(chk.replay_file))
        w = rp.get('witness') or {}
        if 'text' in w:
            out = native('C20', {'op': 'replay', 'text': w['text']})
            print(json.dumps(out, indent=1))
            return 0 if out['ok'] else 1
        print(json.dumps(rp, indent=1)[:3000])
        return 1
    from pyvc import extract
    import os
    path = os.path.join(extract.REPO_PY, 'pydiffx', 'integrations',
                        'pygments_lexer.py') if hasattr(
        extract, 'REPO_PY') else '/repo/python/pydiffx/integrations/' \
        'pygments_lexer.py'
    import hashlib
    src = open(path, 'rb').read()
    chk.functions.append({
        'name': 'pydiffx.integrations.pygments_lexer.DiffXLexer.tokens',
        'file': path, 'lines': [1, src.count(b'\n')],
        'sha256': hashlib.sha256(src).hexdigest(),
        'contract': 'rule-table obligations: tiling + progress per rule'})
    r = native('C20', {'op': 'rules'})
    witnesses = {}
    for o in r['obligations']:
        if o.get('undecided'):
            chk.undecided.append('%s: %s' % (o['id'], o['text']))
            continue
        chk.add_eval_obligation(o['id'], o['ok'], o['text'],
                                witness=o['witness'])
        witnesses[o['id']] = o['witness']
    if not r['obligations']:
        chk.errors.append('no rule obligations generated')
    chk.trusted += [
        'CONTRACT OF THE DRIVER (assumed, pygments.lexer.RegexLexer.'
        'get_tokens_unprocessed 2.21): at each position the first rule of the '
        'current state whose regex matches is applied and the position moves '
        'to the end of the match; if none matches one character is emitted '
        '(Text for a newline, Error otherwise) and the position moves by one. '
        'Under this contract: every rule tiles its match with emitted groups '
        '+ every match is non-empty  =>  the token values concatenate to the '
        'input and the loop terminates, for every input',
        'the two obligations are decided STRUCTURALLY on the parse tree of '
        "each rule's real regular expression (re._parser, the lexer's own "
        'flags): tiling = every character-consuming node lies inside exactly '
        'one top-level capturing group, lookarounds and anchors aside, '
        'optional non-capturing wrappers allowed, bygroups has one non-None '
        'action per group; progress = minimum match width > 0.  Sufficient '
        'conditions: a rule outside this fragment is reported, with a '
        'matching string replayed through the real lexer',
        'bygroups / using semantics as in pygments 2.21 (empty and absent '
        'groups are skipped; using() re-lexes the group text with the named '
        'lexer at the group offset)',
        'EXTERNAL sub-lexers JsonLexer and DiffLexer are assumed lossless '
        'and terminating (pygments test-suite invariant); using(this, '
        "state='diff') is covered by the obligations on the 'diff' state",
        'SECOND HALF of the property (writer-produced UTF-8 files without '
        '"#." in content: no Error token, header tokens = section headers in '
        'order) depends on leftmost-first / lazy / lookahead matching '
        'semantics that neither solver decides: BOUNDED layer only']

    def find(oid, status, model):
        w = witnesses.get(oid)
        if w and w.get('replayed'):
            return {'witness': w, 'native': w}
        if w and 'text' in w and oid.endswith('.progress'):
            out = native('C20', {'op': 'replay', 'text': w['text']})
            if not out['ok']:
                w['error'] += '; ' + out['error']
                return {'witness': w, 'native': w}
        return None
    chk.handle_failed(find, function='DiffXLexer.tokens')
    if not chk.violations:
        n = 4000 if chk.tier == 'quick' else 120000
        b = native('C20', {'op': 'bounded', 'seed': chk.seed, 'n': n},
                   timeout=3000)
        chk.bounded.append({
            'what': 'random texts over a DiffX-flavoured alphabet (headers, '
                    'markers, "...", "delta n", CR, NUL, non-ASCII): token '
                    'values concatenate to the input, tokenising terminates '
                    '(5 s watchdog); writer-produced UTF-8 files whose '
                    'contents hold no "#." (%d files): lossless, no Error '
                    'token, Name.Tag tokens == the section headers the '
                    'streaming reader reports, in order' % b.get('files', 0),
            'bound': '%d texts' % b['evaluations'],
            'evaluations': b['evaluations'],
            'distinct_nontrivial': b.get('distinct_nontrivial', 0)})
        if b['witness']:
            chk.report_violation('bounded.lexer', {'witness': b['witness']},
                                 True, what=b['witness']['error'])
    return chk.finish(
        'other',
        'Losslessness and termination for EVERY input are reduced, through '
        'the (assumed) contract of the pygments driver loop, to two '
        'obligations per rule of the real token table - the capturing groups '
        'tile the match, the match is non-empty - decided structurally on '
        'the parsed regular expressions.  Sub-lexers from pygments are '
        'assumed lossless.  The header-tagging half is bounded.')


if __name__ == '__main__':
    sys.exit(main())
