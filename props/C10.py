"""C10 - the reader accepts exactly the section orders the hierarchy allows."""
import json
import sys

from props.common import Check, native
from pyvc import verify, smt, extract
from contracts import reader_header, reader_iter
from specs import sections as SP


def build(tag):
    eng = verify.Engine()
    kind, val = tag.split(':', 1)
    if kind == 'hdr':
        c = reader_header.register(eng)
        from pyvc.verify import Const, OneOf, NoneT
        alts = {'none': NoneT(), 'lf': Const(b'\n'), 'crlf': Const(b'\r\n')}
        c.params['self'].fields['_file_newlines'] = alts[val]
    else:
        reader_iter.register(eng, val)
    return eng


def table_obligations(chk):
    mod = extract.load_module('pydiffx.sections')[0]
    table = mod.VALID_SECTION_STATES
    ids = sorted(set(SP.NINE) | set(table) | set(
        x for v in table.values() for x in v))
    for prev in [p for p in [SP.START] + ids if p != SP.START]:
        got = set(table.get(prev, set())) if prev in table else None
        want = SP.MAY_FOLLOW.get(prev)
        ok = (got == want)
        chk.add_eval_obligation(
            'sections.VALID_SECTION_STATES[%s]' % prev, ok,
            'row of the transition table equals the specification row '
            '%r' % (sorted(want) if want else want,),
            witness={'prev': prev, 'code': sorted(got) if got is not None
                     else None, 'spec': sorted(want) if want else None})
    chk.add_eval_obligation(
        'sections.main_only_first',
        all('diffx' not in v for v in table.values()),
        'the main header can follow nothing')
    chk.add_eval_obligation(
        'sections.keys_are_the_nine', set(table) == set(SP.NINE),
        'the table has exactly the nine legal ids as keys')
    chk.add_eval_obligation(
        'sections.CONTENT_SECTIONS', set(mod.CONTENT_SECTIONS) ==
        set(SP.CONTENT), 'content-section set equals the specification')


def main():
    chk = Check('C10')
    if chk.replay_file:
        rp = json.load(open(chk.replay_file))
        out = native('C10', {'op': 'replay', 'witness': rp['witness']})
        print(json.dumps(out, indent=1))
        return 0 if out['ok'] else 1
    table_obligations(chk)
    jobs = [(reader_header.NAME, 'hdr:' + v) for v in ('none', 'lf', 'crlf')]
    jobs += [(reader_iter.NAME, 'it:' + v) for v in [SP.START] + SP.NINE]
    chk.verify_parallel(build, jobs, timeout_s=40, procs=13)
    chk.trusted += [
        'A-re: translation of the header regex into SMT regular expressions',
        'contract of DiffXReader._read_content assumed at its call sites '
        '(verified in C07/C08 checks)',
        'specs/sections.py MAY_FOLLOW is the oracle (19 pairs + START)']
    bounded = {'w': None, 'done': False}

    def find(oid, status, model):
        if not bounded['done']:
            bounded['r'] = native('C10', {'op': 'bounded', 'maxlen': 4,
                                          'seed': chk.seed, 'random': 3000})
            bounded['done'] = True
        w = bounded['r']['witness']
        if w:
            return {'witness': w, 'native': w}
        return None
    chk.handle_failed(find, function=reader_iter.NAME)
    if not chk.violations:
        if not bounded['done']:
            bounded['r'] = native('C10', {
                'op': 'bounded', 'maxlen': 4 if chk.tier == 'quick' else 6,
                'seed': chk.seed,
                'random': 3000 if chk.tier == 'quick' else 60000},
                timeout=3000)
        r = bounded['r']
        chk.bounded.append({
            'what': 'every legal id prefix extended by each of the 24 '
                    'level/name combinations (with and without a blank line '
                    'before the last header) + random longer sequences, '
                    'through the real reader; first rejected index compared '
                    'with MAY_FOLLOW',
            'bound': 'prefix length <= %d' % (3 if chk.tier == 'quick' else 5),
            'evaluations': r['evaluations'],
            'distinct_nontrivial': r['distinct_nontrivial']})
        if r['witness']:
            chk.report_violation('bounded.first_rejected_index', {
                'witness': r['witness']}, True,
                what='reader accept/reject differs from the hierarchy')
    return chk.finish(
        'proof',
        'Transition table equals the specification table (exhaustive finite '
        'obligation); _read_header returns only ids in the valid set and '
        'raises DiffXParseError otherwise (all paths); the main loop of '
        'iter_sections keeps valid_sections == MAY_FOLLOW[last yielded id] '
        '(inductive invariant, any history length).')


if __name__ == '__main__':
    sys.exit(main())
