"""C20, run under /venv python (pygments lives there).

Rule-table obligations for the DiffX lexer, decided structurally on the
parsed regular expressions of the REAL token table (every input), plus the
bounded layers (random texts; writer-produced files)."""
import io
import json
import random
import re
import re._constants as C
import re._parser as P
import signal
import sys

from pygments.token import Error, Name, _TokenType

from pydiffx.integrations.pygments_lexer import DiffXLexer


def kind_of(action):
    if type(action) is _TokenType:
        return 'token'
    qn = getattr(action, '__qualname__', '')
    if qn.startswith('bygroups.'):
        return 'bygroups'
    if qn.startswith('using.'):
        return 'using'
    return 'unknown'


def flatten(state, seen=()):
    """Rules of a state with includes expanded (pygments' own order)."""
    out = []
    for r in DiffXLexer.tokens[state]:
        if isinstance(r, str) and type(r).__name__ == 'include':
            if r not in seen:
                out += flatten(str(r), seen + (state,))
        else:
            out.append(r)
    return out


ZERO_WIDTH = (C.AT, C.ASSERT, C.ASSERT_NOT)


def has_capture(items):
    for op, av in items:
        if op == C.SUBPATTERN:
            if av[0] is not None or has_capture(av[3]):
                return True
        elif op in (C.MAX_REPEAT, C.MIN_REPEAT, C.POSSESSIVE_REPEAT):
            if has_capture(av[2]):
                return True
        elif op == C.BRANCH:
            if any(has_capture(a) for a in av[1]):
                return True
        elif op in (C.ASSERT, C.ASSERT_NOT):
            if has_capture(av[1]):
                return True
    return False


def tiling(items, path='top'):
    """None if every character the items can match lies in exactly one
    top-level capturing group; otherwise a description of the leak."""
    for i, (op, av) in enumerate(items):
        where = '%s[%d]' % (path, i)
        if op in ZERO_WIDTH:
            if op != C.AT and has_capture(av[1]):
                return '%s: capturing group inside a lookaround' % where
            continue
        if op == C.SUBPATTERN:
            group, _a, _d, sub = av
            if group is not None:
                if has_capture(sub):
                    return ('%s: nested capturing group (text would be '
                            'emitted twice)' % where)
                continue
            r = tiling(sub, where)
            if r:
                return r
            continue
        if op in (C.MAX_REPEAT, C.MIN_REPEAT):
            lo, hi, sub = av
            if (lo, hi) == (0, 1) or (lo, hi) == (1, 1):
                r = tiling(sub, where)
                if r:
                    return r
                continue
            if has_capture(sub):
                return ('%s: repeated capturing group (only the last '
                        'repetition is emitted)' % where)
            return '%s: repetition outside any capturing group' % where
        if op == C.BRANCH:
            for k, alt in enumerate(av[1]):
                r = tiling(alt, '%s|%d' % (where, k))
                if r:
                    return r
            continue
        return '%s: %s matches characters outside every capturing group' % (
            where, str(op).lower())
    return None


def sample(items, rng, depth=0):
    """Some string matched by the items (witness construction)."""
    out = []
    for op, av in items:
        if op == C.LITERAL:
            out.append(chr(av))
        elif op == C.NOT_LITERAL:
            out.append('x' if av != ord('x') else 'y')
        elif op == C.ANY:
            out.append('a')
        elif op == C.IN:
            neg = av and av[0][0] == C.NEGATE
            cands = 'a1 #.:=x\n'
            ok = None
            for ch in cands:
                hit = False
                for o, a in av:
                    if o == C.LITERAL and a == ord(ch):
                        hit = True
                    elif o == C.RANGE and a[0] <= ord(ch) <= a[1]:
                        hit = True
                    elif o == C.CATEGORY:
                        if a == C.CATEGORY_DIGIT and ch.isdigit():
                            hit = True
                        if a == C.CATEGORY_SPACE and ch.isspace():
                            hit = True
                        if a == C.CATEGORY_WORD and (ch.isalnum()
                                                     or ch == '_'):
                            hit = True
                if hit != bool(neg):
                    ok = ch
                    break
            out.append(ok or 'a')
        elif op == C.SUBPATTERN:
            out.append(sample(av[3], rng, depth + 1))
        elif op in (C.MAX_REPEAT, C.MIN_REPEAT):
            lo, hi, sub = av
            n = max(lo, 1) if hi >= 1 else 0
            out.append(''.join(sample(sub, rng, depth + 1)
                               for _ in range(n)))
        elif op == C.BRANCH:
            out.append(sample(av[1][0], rng, depth + 1))
        elif op == C.CATEGORY:
            out.append('1' if av == C.CATEGORY_DIGIT else 'a')
    return ''.join(out)


class Timeout(Exception):
    pass


def _alarm(s, f):
    raise Timeout()


def lex(text, seconds=5):
    signal.signal(signal.SIGALRM, _alarm)
    signal.alarm(seconds)
    try:
        return list(DiffXLexer().get_tokens_unprocessed(text))
    finally:
        signal.alarm(0)


def lossless(text):
    """None if tokens tile the text; else an error description."""
    try:
        toks = lex(text)
    except Timeout:
        return 'tokenising does not terminate within 5 s'
    joined = ''.join(v for _, _, v in toks)
    if joined != text:
        return 'concatenated token values differ from the input: %r' % (
            joined[:200],)
    return None


def rule_obligations():
    obs = []
    flags = DiffXLexer.flags
    rng = random.Random(0)
    for state in sorted(DiffXLexer.tokens):
        for idx, r in enumerate(flatten(state)):
            rx, action = r[0], r[1]
            new_state = r[2] if len(r) > 2 else None
            rid = '%s[%d]' % (state, idx)
            parsed = P.parse(rx, flags)
            items = list(parsed)
            minw = int(parsed.getwidth()[0])
            kind = kind_of(action)
            wit = sample(items, rng)
            # O2: progress
            ok = minw > 0
            obs.append({'id': 'rule.%s.progress' % rid, 'ok': ok,
                        'text': 'every match of %r consumes at least one '
                                'character (minimum width %d)' % (rx, minw),
                        'witness': None if ok else {
                            'text': wit, 'error': 'rule %s can match the '
                            'empty string%s' % (rid, '' if new_state else
                                                ' without a state change')}})
            # O1: tiling
            leak = None
            ngroups = parsed.state.groups - 1
            if kind == 'token':
                pass
            elif kind == 'using':
                pass
            elif kind == 'bygroups':
                args = action.__closure__[0].cell_contents
                if len(args) != ngroups:
                    leak = 'bygroups has %d actions for %d groups' % (
                        len(args), ngroups)
                elif any(a is None for a in args):
                    leak = 'bygroups action None drops a group'
                elif any(kind_of(a) == 'unknown' for a in args):
                    leak = 'unknown group action'
                else:
                    leak = tiling(items)
            else:
                leak = 'unknown action kind %r' % (action,)
            w = None
            if leak:
                err = None
                for cand in (wit, wit + '\n', '\n' + wit + 'tail\n',
                             '#...diff:\n' + wit,
                             '#...diff: length=1\n' + wit + 'x\n'):
                    err = lossless(cand)
                    if err:
                        wit = cand
                        break
                w = {'text': wit, 'error': 'rule %s: %s%s' % (
                    rid, leak, ('; ' + err) if err else '')}
                w['replayed'] = bool(err)
            obs.append({'id': 'rule.%s.tiling' % rid, 'ok': not leak,
                        'text': 'the groups of %r tile every match and '
                                'every group has an action (%s)' % (
                                    rx, kind),
                        'witness': w})
            if new_state is not None:
                obs.append({'id': 'rule.%s.no_state_change' % rid,
                            'ok': False, 'undecided': True,
                            'text': 'state transitions are outside the '
                                    'analysed fragment', 'witness': None})
    return obs


# ---- bounded layers -------------------------------------------------------
ALPHA = ['#', '.', ':', ' ', '\n', 'a', 'diffx', 'meta', 'preamble', 'diff',
         'change', 'file', '=', ',', '1', 'length', '{', '}', '"', '\r',
         '\t', '+', '-', '@', '...\n', 'delta 5\n', 'é', '☃', '\x00',
         '#.meta: length=2\n', '#...diff:\n', '#..file:', '#diffx: x\n']


def random_text(rng):
    n = rng.randrange(0, 14)
    return ''.join(rng.choice(ALPHA) for _ in range(n))


def benign_calls(rng):
    from props.native_gen import random_calls
    texts = ['hello\nworld\n', 'one line', 'a\r\nb\r\n', '  indented\n\n  x\n',
             'café ☃\n', '#diffx: not a header\n', '# .x\n', 'x' * 90 + '\ny']
    diffs = [b'--- a\n+++ b\n@@ -1 +1 @@\n-old\n+new\n', b'delta 12\nxyz\n',
             b'...\n', b'a\r\nb\r\n', b'Index: x\n', b'# comment\n']
    calls = random_calls(rng, encodings=['utf-8', 'utf8', 'UTF-8'],
                         texts=texts, diffs=diffs)
    for _n, _a, kw in calls:
        if kw.get('encoding') not in (None, 'utf-8', 'utf8', 'UTF-8'):
            kw['encoding'] = 'utf-8'      # a UTF-8 file throughout
    return calls


def bounded(seed, n):
    from props.native_gen import run_calls
    from pydiffx.reader import DiffXReader
    rng = random.Random(seed)
    evals = 0
    distinct = set()
    for _ in range(n):
        t = random_text(rng)
        evals += 1
        if t:
            distinct.add(t)
        e = lossless(t)
        if e:
            return evals, {'text': t, 'error': e}
    files = 0
    for _ in range(n // 4):
        calls = benign_calls(rng)
        calls[0] = ('__init__', [], {'encoding': 'utf-8'})
        try:
            data = run_calls(calls)
        except (UnicodeError, LookupError):
            continue
        text = data.decode('utf-8')
        body = text.split('\n', 1)[1] if '\n' in text else ''
        contents_have_marker = False
        recs = list(DiffXReader(io.BytesIO(data)))
        for r in recs:
            for k in ('text', 'diff'):
                v = r.get(k)
                if isinstance(v, bytes):
                    v = v.decode('utf-8', 'replace')
                if v and '#.' in v:
                    contents_have_marker = True
            if 'metadata' in r and '#.' in json.dumps(r['metadata']):
                contents_have_marker = True
        if contents_have_marker:
            continue
        files += 1
        evals += 1
        distinct.add(text)
        e = lossless(text)
        if e:
            return evals, {'text': text, 'error': e}
        toks = lex(text)
        errs = [v for _, tt, v in toks if tt is Error]
        if errs:
            return evals, {'text': text, 'error': 'error token %r in a '
                           'writer-produced file' % errs[0]}
        # (the JSON sub-lexer tags object keys as Name.Tag too: '"key"')
        tags = [v for _, tt, v in toks
                if tt is Name.Tag and v.startswith('#')]
        want = ['#%s:' % r['section'] for r in recs]
        if tags != want:
            return evals, {'text': text, 'error': 'header tokens %r, '
                           'section headers %r' % (tags, want)}
    return evals, None, files, len(distinct)


def main():
    req = json.load(sys.stdin)
    if req['op'] == 'rules':
        json.dump({'obligations': rule_obligations()}, sys.stdout)
    elif req['op'] == 'replay':
        e = lossless(req['text'])
        json.dump({'ok': e is None, 'error': e}, sys.stdout)
    else:
        r = bounded(req['seed'], req['n'])
        out = {'evaluations': r[0], 'witness': r[1]}
        if len(r) > 2:
            out['files'] = r[2]
        if len(r) > 3:
            out['distinct_nontrivial'] = r[3]
        json.dump(out, sys.stdout)


if __name__ == '__main__':
    main()
