"""C11 - header lines are accepted iff they match the specification grammar."""
import json
import sys

from props.common import Check, native
from pyvc import verify, smt
from contracts import reader_header, lemmas_split


def build(tag):
    eng = verify.Engine()
    c = reader_header.register(eng, strict=True)
    from pyvc.verify import Const, NoneT
    alts = {'none': NoneT(), 'lf': Const(b'\n'), 'crlf': Const(b'\r\n')}
    c.params['self'].fields['_file_newlines'] = alts[tag]
    return eng


def main():
    chk = Check('C11')
    if chk.replay_file:
        rp = json.load(open(chk.replay_file))
        out = native('C11', {'op': 'replay', 'witness': rp['witness']})
        print(json.dumps(out, indent=1))
        return 0 if out['ok'] else 1
    for oid, asserts, text in lemmas_split.all_lemmas():
        chk.add_smt_obligation('lemma.' + oid, asserts, timeout_s=30,
                               describe=text)
    jobs = [(reader_header.NAME, v) for v in ('none', 'lf', 'crlf')]
    chk.verify_parallel(build, jobs, timeout_s=40, procs=3, solver_jobs=14)
    chk.trusted += [
        'A-re: translation of the three header patterns into SMT regular '
        'expressions (from CPython\'s own re parse tree)',
        'A-bytes: cons-style unfolding of bytes.split used by the '
        'split_factors / join_factors lemmas (base + step are discharged '
        'obligations; the structural induction itself is the standard one)',
        'A-int: int() of an ASCII digit string; CPython refuses more than '
        '4300 digits - such a value stays a string (stated deviation)',
        'contract of _read_until assumed at its call site (C17 check)',
        'proof hints (contracts/hints) only select subsets of assumptions']
    state = {}

    def find(oid, status, model):
        if 'r' not in state:
            state['r'] = native('C11', {'op': 'bounded', 'maxlen': 4,
                                        'seed': chk.seed, 'random': 5000},
                                timeout=1800)
        w = state['r']['witness']
        return {'witness': w, 'native': w} if w else None
    chk.handle_failed(find, function=reader_header.NAME)
    if not chk.violations:
        if 'r' not in state or chk.tier != 'quick':
            state['r'] = native('C11', {
                'op': 'bounded', 'maxlen': 4 if chk.tier == 'quick' else 5,
                'seed': chk.seed,
                'random': 5000 if chk.tier == 'quick' else 200000},
                timeout=3000)
        r = state['r']
        chk.bounded.append({
            'what': 'every option string over a 17-symbol alphabet (letters, '
                    'digits, each punctuation character of the grammar, '
                    'space, tab, "#", ":", "+", two non-ASCII bytes) placed '
                    'after "#.change:" in a valid context; accept / parse '
                    'error / other exception and the reported options '
                    'compared with an independent matcher of the grammar',
            'bound': 'option-string length <= %d exhaustive' % (
                4 if chk.tier == 'quick' else 5),
            'evaluations': r['evaluations'],
            'distinct_nontrivial': r['distinct_nontrivial'],
            'exhaustive': True})
        if r['witness']:
            chk.report_violation('bounded.header_lines',
                                 {'witness': r['witness']}, True,
                                 what='accept/reject or options differ from '
                                      'the grammar')
    return chk.finish(
        'proof',
        '_read_header verified on all paths: accepted => the line decomposes '
        'as "#" dots name ":" [" " options] with options in PAIR(, PAIR)* '
        '(loop invariant over the pairs + join_factors lemma) and the '
        'reported options are the fold ParseOpts over the pairs (integers '
        'converted); rejected with DiffXParseError => the line is not in the '
        'grammar or its id is not allowed (hdr_unique_options + '
        'split_factors lemmas); no other exception type can escape '
        '(UnicodeDecodeError, ValueError, IndexError paths are infeasible). '
        'The regex/split lemmas are separate discharged obligations.')


if __name__ == '__main__':
    sys.exit(main())
