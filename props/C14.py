"""C14 - unified-diff hunk parser: exact geometry or a positioned error."""
import json
import sys

from props.common import Check, native
from pyvc import verify, smt
from contracts import unified as U


def build(tag):
    eng = verify.Engine()
    U.register(eng)
    return eng


KNOWN_MARKER = [b'@@ -1 +1 @@', b'-a', b'+b', b'\\ No newline at end of file',
                b'@@ -5 +5 @@', b'-c', b'+d']


def main():
    chk = Check('C14')
    if chk.replay_file:
        rp = json.load(open(chk.replay_file))
        out = native('C14', {'op': 'replay', 'witness': rp['witness']})
        print(json.dumps(out, indent=1))
        return 0 if out['ok'] else 1
    chk.verify_parallel(build, [(U.NAME, None)], timeout_s=40, procs=1)
    # implementation == specification fold on every list of <= 2 (thorough:
    # 3) lines with symbolic contents
    from props import dom_common
    from contracts import dom_scenarios as DS
    dom_common.run_scenarios(chk, DS.c14_scenarios(chk.tier))
    chk.trusted += [
        'EQUIVALENCE LAYER: the real function and an independent '
        'specification (a fold over line classes written in the scenario '
        'driver, contracts/dom_scenarios.py HUNK_SPEC) are executed '
        'symbolically on the same list of n <= %d lines whose CONTENTS are '
        'symbolic; verdict, error line, processed-line count, totals, hunk '
        'count and the ten geometry fields of every hunk must agree on '
        'every path.  Unbounded in the contents, bounded in the number of '
        'lines; the input space is partitioned by the first bytes of the '
        'lines (exhaustive) to run in parallel' % (
            2 if chk.tier == 'quick' else 3),
        'the specification shares the header pattern with the '
        'implementation (header grammar is not re-specified) and, like the '
        'implementation, treats a marker line after a completed hunk as a '
        'non-hunk line (the known finding is a property-level judgement, '
        'kept in the bounded layer)',
        'A-re: the hunk-header pattern translated from the real source; '
        'groups by existential decomposition',
        'A-int: int() of an ASCII digit string; lines are assumed no '
        'longer than 4300 bytes (CPython refuses longer digit strings with '
        'ValueError) - stated precondition',
        'precondition: lines is a list of bytes',
        'the per-hunk GEOMETRY is under the loop contract only as far as '
        'counters go; beyond the list lengths of the equivalence layer it '
        'is covered by the bounded layer']
    # known finding: a marker right after the line that completes a hunk
    kn = native('C14', {'op': 'replay', 'witness': {
        'lines': [l.hex() for l in KNOWN_MARKER], 'ignore': False}})
    obs = kn['observed']
    still = "'num_processed_lines': 3" in obs[1]
    if still:
        k = chk.match_known('bounded.marker_after_completed_hunk',
                            'marker-after-hunk')
        if k:
            chk.known_hits.append((k, 'bounded.marker_after_completed_hunk'))
        else:
            chk.report_violation(
                'bounded.marker_after_completed_hunk',
                {'witness': {'lines': [l.hex() for l in KNOWN_MARKER],
                             'ignore': False}, 'observed': obs}, True,
                witness_class='marker-after-hunk',
                what='a marker after the completing line ends parsing')
    else:
        print('NOTE: known finding C14#marker-after-hunk no longer '
              'reproduces')
    state = {}

    def run_bounded(n, maxlen):
        return native('C14', {'op': 'bounded', 'seed': chk.seed, 'n': n,
                              'maxlen': maxlen}, timeout=3000)

    def find(oid, status, model):
        if 'r' not in state:
            state['r'] = run_bounded(5000, 3)
        w = state['r']['witness']
        return {'witness': w, 'native': w} if w else None
    chk.handle_failed(find, function=U.NAME)
    if not chk.violations:
        if 'r' not in state or chk.tier != 'quick':
            q = chk.tier == 'quick'
            state['r'] = run_bounded(15000 if q else 300000, 4 if q else 5)
        r = state['r']
        chk.bounded.append({
            'what': 'hunk sequences generated with known geometry (starts '
                    '0..39, counts 0..6 incl. omitted ",1", payloads that '
                    'look like file headers / hunk headers, markers before '
                    'the completing line, garbage between hunks) compared '
                    'field by field; single-point damages (foreign line in a '
                    'hunk, early end, interrupting header) must raise '
                    'MalformedHunkError naming the line; all line lists up '
                    'to the bound over a 9-line vocabulary (exception type, '
                    'error position, consumed count); both garbage modes',
            'bound': '%d generated diffs; lists of length <= %d' % (
                (15000, 4) if chk.tier == 'quick' else (300000, 5)),
            'evaluations': r['evaluations'],
            'distinct_nontrivial': r['evaluations']})
        if r['witness']:
            chk.report_violation('bounded.hunk_geometry',
                                 {'witness': r['witness']}, True,
                                 what=r['witness']['error'])
    return chk.finish(
        'other',
        'Proved for every list of byte lines (incl. the empty list), any '
        'number of hunks: only MalformedHunkError can escape (no '
        'UnboundLocalError / ValueError / KeyError / TypeError), and it '
        'names a line of the input (1 <= line_num <= len(lines), line == '
        'lines[line_num-1]); the consumed-line count lies in [0, len(lines)] '
        'and equals len(lines) when garbage is ignored; counters stay '
        'non-negative (loop invariant with a two-shape heap template for the '
        'open hunk).  The per-hunk geometry and the "must raise" conditions '
        'are covered by the bounded layer only.  KNOWN FINDING: marker '
        'directly after a completed hunk.')


if __name__ == '__main__':
    sys.exit(main())
