"""Native (CPython, real pydiffx) side of C17: replay, small-scope search and
the bounded stand-in.  Runs under /venv/bin/python with PYTHONPATH=/repo/python.
"""
import io
import itertools
import json
import random
import sys

from pydiffx.reader import DiffXReader
from pydiffx.writer import DiffXWriter


def spec_read_until(data, pos0, c):
    """What the property demands of one read-until call."""
    i = data.find(c, pos0)
    if i == -1:
        return data[pos0:], True, len(data)
    return data[pos0:i + 1], False, i + 1


def run_one(data, pos0, c, chunk_size):
    fp = io.BytesIO(data)
    fp.seek(pos0)
    r = DiffXReader(fp)
    try:
        got = r._read_until(c, chunk_size)
        got = (got[0], got[1], fp.tell())
    except Exception as e:   # noqa
        got = ('EXC', type(e).__name__, str(e))
    exp = spec_read_until(data, pos0, c)
    return got == exp, got, exp


def search(limit_len=6, chunks=(1, 2, 3, 4, 7)):
    n = 0
    for ln in range(0, limit_len + 1):
        for tup in itertools.product(b'\na', repeat=ln):
            data = bytes(tup)
            for pos0 in range(ln + 1):
                for ch in chunks:
                    n += 1
                    ok, got, exp = run_one(data, pos0, b'\n', ch)
                    if not ok:
                        return n, {'data': data.hex(), 'pos0': pos0,
                                   'c': '0a', 'chunk_size': ch,
                                   'got': repr(got), 'expected': repr(exp)}
    return n, None


def make_files(rng, count):
    files = []
    texts = ['hello\nworld', '#.change:\n@@ -1 +1 @@\n', 'x' * 200 + '\ny',
             'a\r\nb\r\n', '\n\n\n', 'tail']
    for _ in range(count):
        fp = io.BytesIO()
        w = DiffXWriter(fp)
        if rng.random() < .5:
            w.write_preamble(rng.choice(texts), indent=rng.choice([0, 2, 4]))
        if rng.random() < .5:
            w.write_meta({'k': rng.choice(texts), 'n': rng.randrange(99)})
        for _c in range(rng.randrange(1, 3)):
            w.new_change()
            if rng.random() < .5:
                w.write_preamble(rng.choice(texts))
            w.write_meta({'id': 'c%d' % _c})
            for _f in range(rng.randrange(1, 3)):
                w.new_file()
                w.write_meta({'path': 'f%d' % _f, 'long': 'z' * rng.randrange(150)})
                if rng.random() < .7:
                    w.write_diff(rng.choice(texts).encode('utf-8'))
        files.append(fp.getvalue())
    # well-formed files of another producer whose HEADERS end in CRLF (the
    # writer only emits LF headers): the two-byte terminator can straddle a
    # block boundary
    from props import native_C03 as F
    want = max(1, count // 3)
    for _ in range(200):
        if want == 0:
            break
        fb = F.make_file(rng)
        if fb.hnl == b'\r\n':
            files.append(b''.join(fb.out))
            want -= 1
    return files


class Timeout(Exception):
    pass


def _alarm(signum, frame):
    raise Timeout('no termination within the time limit')


def records(data, chunk, limit_s=5):
    import signal
    old = DiffXReader._read_until.__defaults__
    DiffXReader._read_until.__defaults__ = (chunk,)
    signal.signal(signal.SIGALRM, _alarm)
    signal.alarm(limit_s)
    try:
        try:
            return [sorted((k, repr(v)) for k, v in s.items())
                    for s in DiffXReader(io.BytesIO(data))]
        except Exception as e:  # noqa
            return ['EXC %s %s' % (type(e).__name__, e)]
    finally:
        signal.alarm(0)
        DiffXReader._read_until.__defaults__ = old


def records_buffered(data, bufsize, limit_s=5):
    """Records read through a buffered stream (what open() returns): the
    stream type is one more way the same bytes can be chunked."""
    import signal as _s
    _s.signal(_s.SIGALRM, _alarm)
    _s.alarm(limit_s)
    try:
        try:
            fp = io.BufferedReader(io.BytesIO(data), buffer_size=bufsize)
            return [sorted((k, repr(v)) for k, v in s.items())
                    for s in DiffXReader(fp)]
        except Exception as e:  # noqa
            return ['EXC %s %s' % (type(e).__name__, e)]
    finally:
        _s.alarm(0)


def pad_first_header(data, pad):
    # lengthen the first header with an unknown option of total size `pad`
    first, rest = data.split(b'\n', 1)
    if pad == 0:
        return data
    if pad < 6:
        return None
    opt = b', z=' + b'p' * (pad - 4)
    return first + opt + b'\n' + rest


def bounded(seed, tier):
    rng = random.Random(seed)
    block = 96
    files = make_files(rng, 3 if tier == 'quick' else 12)
    pads = range(0, 2 * block + 1, 1 if tier != 'quick' else 7)
    chunks = list(range(1, 2 * block + 1, 1 if tier != 'quick' else 5)) + \
        [10 ** 6]
    evals = 0
    distinct = set()
    sample = None
    for f in files:
        for pad in pads:
            g = pad_first_header(f, pad)
            if g is None:
                continue
            base = records(g, 96)
            if base and isinstance(base[-1], str) and 'Timeout' in base[-1]:
                return {'evaluations': evals + 1, 'failure': {
                    'file': g.hex(), 'chunk_size': 96, 'pad': pad,
                    'got': base[-1], 'expected': 'termination'}}
            if pad % 21 == 0:
                # the same bytes through a buffered stream (as from open())
                for bs in (1, 7, 64, 97, 8192):
                    evals += 1
                    distinct.add((hash(g), 'buffered', bs))
                    got = records_buffered(g, bs)
                    if got != base:
                        return {'evaluations': evals, 'failure': {
                            'file': g.hex(), 'chunk_size': 96, 'pad': pad,
                            'buffered': bs, 'got': repr(got)[:500],
                            'expected': repr(base)[:500]}}
            for ch in chunks:
                evals += 1
                distinct.add((hash(g), ch))
                got = records(g, ch)
                if got != base:
                    return {'evaluations': evals, 'failure': {
                        'file': g.hex(), 'chunk_size': ch, 'pad': pad,
                        'got': repr(got)[:500], 'expected': repr(base)[:500]}}
                if sample is None and pad:
                    sample = {'file_len': len(g), 'pad': pad,
                              'chunk_size': ch, 'n_records': len(base)}
    return {'evaluations': evals, 'distinct_nontrivial': len(distinct),
            'failure': None, 'sample': sample}


def main():
    req = json.load(sys.stdin)
    op = req['op']
    if op == 'replay' and 'file' in req['witness']:
        w = req['witness']
        g = bytes.fromhex(w['file'])
        got, exp = records(g, w['chunk_size']), records(g, 96)
        if 'buffered' in w:
            got = records_buffered(g, w['buffered'])
        out = {'ok': got == exp, 'got': repr(got)[:800],
               'expected': repr(exp)[:800]}
    elif op == 'replay':
        w = req['witness']
        ok, got, exp = run_one(bytes.fromhex(w['data']), w['pos0'],
                               bytes.fromhex(w['c']), w['chunk_size'])
        out = {'ok': ok, 'got': repr(got), 'expected': repr(exp)}
    elif op == 'search':
        n, w = search()
        out = {'evaluations': n, 'witness': w}
    elif op == 'bounded':
        out = bounded(req['seed'], req['tier'])
    else:
        raise SystemExit('bad op')
    json.dump(out, sys.stdout)


if __name__ == '__main__':
    main()
