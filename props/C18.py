"""C18 - object-model instances are isolated; observers do not mutate."""
import json
import sys

from props.common import Check, native
from props import dom_common
from contracts import dom_scenarios as DS
from contracts import writer as W
from pyvc import verify
from specs import sections as SP


def build(tag):
    eng = verify.Engine()
    W.register(eng, tag)
    return eng


def main():
    chk = Check('C18')
    if chk.replay_file:
        print(open(chk.replay_file).read()[:3000])
        return 1
    dom_common.describe_functions(chk, dom_common.DOM_FUNCTIONS + [
        'pydiffx.dom.objects.BaseDiffXSection.__repr__',
        'pydiffx.dom.objects.DiffX.to_bytes',
        'pydiffx.dom.writer.DiffXDOMWriter.write_stream',
        'pydiffx.dom.writer.DiffXDOMWriter._write_section',
        'pydiffx.dom.writer.DiffXDOMWriter._write_container_section',
        'pydiffx.dom.writer.DiffXDOMWriter._write_content_section',
        'pydiffx.dom.writer.DiffXDOMWriter._get_options'])
    dom_common.run_scenarios(chk, DS.c18_scenarios(chk.tier))
    # the streaming writer does not touch the metadata it is handed
    chk.verify_parallel(build, [(W.QN + 'write_meta', p) for p in SP.NINE],
                        timeout_s=30, procs=14)
    chk.trusted += [
        'scenario verification on trees of a FIXED SHAPE (<= 2 changes, '
        '<= 2 files) with symbolic values: unbounded in values, bounded in '
        'shape; snapshots are deep (every option, content value, list and '
        'object identity reachable from the tree)',
        'in the to_bytes / write_stream scenarios the streaming writer is '
        'seen through a stub contract: any outcome (return / any exception), '
        'no effect on its arguments.  The second half is discharged for the '
        'only mutable argument (write_meta#post.arg_unchanged, same run); '
        'all other arguments are immutable scalars or ** copies (A-py)',
        'isolation of parse results (repeated parses with one reader '
        'object), determinism of to_bytes and absence of module-level '
        'mutable state are covered by the bounded layer only',
        'A-py: copy.deepcopy and dict.copy produce fresh cells']
    state = {}

    def find(oid, status, model):
        if 'r' not in state:
            state['r'] = native('dom', {'op': 'c18', 'seed': chk.seed,
                                        'n': 300}, timeout=1800)
        w = state['r']['witness']
        return {'witness': w, 'native': w} if w else None
    chk.handle_failed(find, function='pydiffx.dom')
    if not chk.violations:
        if 'r' not in state or chk.tier != 'quick':
            state['r'] = native('dom', {
                'op': 'c18', 'seed': chk.seed,
                'n': 400 if chk.tier == 'quick' else 20000}, timeout=3000)
        r = state['r']
        chk.bounded.append({
            'what': 'random histories over 5+ live trees (3 constructed, 2 '
                    'parsed with ONE reader object, more parsed later): '
                    'mutate meta/options/content of one, add sections, '
                    'generate_stats, serialise with ONE writer object and '
                    'with to_bytes twice, compare, print; snapshots of all '
                    'other trees before/after; observers leave the tree '
                    'unchanged; both serialisations identical',
            'bound': '%d operations' % r['evaluations'],
            'evaluations': r['evaluations'],
            'distinct_nontrivial': r.get('distinct_nontrivial', 0)})
        if r['witness']:
            chk.report_violation('bounded.histories',
                                 {'witness': r['witness']}, True,
                                 what=r['witness']['error'])
    return chk.finish(
        'other',
        'Scenario obligations over the real constructors, add_change / '
        'add_file, descriptors, __eq__, __repr__, to_bytes and the '
        'object-model writer: mutating one tree / section leaves every other '
        'tree / sibling deep-equal to its snapshot; fresh trees always have '
        'pristine defaults; ==, repr, to_bytes and write_stream (also when '
        'they raise, also with one writer object used twice) leave the '
        'trees and the writer object unchanged.')


if __name__ == '__main__':
    sys.exit(main())
