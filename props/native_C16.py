"""Native side of C16 (real split_lines under CPython)."""
import itertools
import json
import random
import sys

from pydiffx.utils.text import split_lines

NEWLINES = [
    b'\n', b'\r\n',
    '\n'.encode('utf-16-le'), '\r\n'.encode('utf-16-le'),
    '\n'.encode('utf-16-be'), '\r\n'.encode('utf-16-be'),
    '\n'.encode('utf-32-le'), '\r\n'.encode('utf-32-le'),
    '\n'.encode('utf-32-be'), '\r\n'.encode('utf-32-be'),
]


def occurrences(data, nl):
    """Non-overlapping left-to-right occurrences (independent scanner)."""
    out = []
    i = 0
    while i + len(nl) <= len(data):
        if data[i:i + len(nl)] == nl:
            out.append(i)
            i += len(nl)
        else:
            i += 1
    return out


def check_case(data, nl):
    """The four clauses of C16's statement, checked directly."""
    try:
        kept = split_lines(data, nl, keep_ends=True)
        bare = split_lines(data, nl, keep_ends=False)
    except Exception as e:  # noqa
        return 'exception %s: %s' % (type(e).__name__, e)
    if not isinstance(kept, list) or not isinstance(bare, list):
        return 'not lists'
    if b''.join(kept) != data:
        return 'not lossless: %r' % (kept,)
    occ = occurrences(data, nl)
    ends = data.endswith(nl)
    if len(kept) != len(occ) + (0 if ends else 1):
        return 'line count %d, occurrences %d, endswith %s' % (
            len(kept), len(occ), ends)
    for j, line in enumerate(kept):
        terminated = j < len(kept) - 1 or ends
        if terminated:
            if not line.endswith(nl) or line.find(nl) != len(line) - len(nl):
                return 'line %d not terminated exactly once: %r' % (j, line)
        elif nl in line:
            return 'unterminated last line contains newline: %r' % (line,)
    if len(bare) != len(kept):
        return 'modes differ in length'
    for j, (k, b) in enumerate(zip(kept, bare)):
        terminated = j < len(kept) - 1 or ends
        exp = k[:-len(nl)] if terminated else k
        if b != exp:
            return 'modes disagree at %d: %r vs %r' % (j, k, b)
    return None


def exhaustive(maxlen, alphabet=b'\r\n\x00 a'):
    n = 0
    for ln in range(1, maxlen + 1):
        for tup in itertools.product(alphabet, repeat=ln):
            data = bytes(tup)
            for nl in NEWLINES:
                n += 1
                err = check_case(data, nl)
                if err:
                    return n, {'data': data.hex(), 'newline': nl.hex(),
                               'error': err}
    return n, None


def rand(seed, count):
    rng = random.Random(seed)
    n = 0
    for _ in range(count):
        nl = rng.choice(NEWLINES)
        parts = []
        for _p in range(rng.randrange(1, 12)):
            parts.append(rng.choice([nl, nl[:1], nl[1:], b'a', b'\x00',
                                     b'\r', b'\n', b' ', b'xyz', nl + nl]))
        data = b''.join(parts)
        if not data:
            continue
        n += 1
        err = check_case(data, nl)
        if err:
            return n, {'data': data.hex(), 'newline': nl.hex(), 'error': err}
    return n, None


def main():
    req = json.load(sys.stdin)
    if req['op'] == 'replay':
        w = req['witness']
        err = check_case(bytes.fromhex(w['data']), bytes.fromhex(w['newline']))
        out = {'ok': err is None, 'error': err}
    elif req['op'] == 'bounded':
        n1, w = exhaustive(req['maxlen'])
        n2 = 0
        if w is None:
            n2, w = rand(req['seed'], req['random'])
        out = {'evaluations': n1 + n2, 'exhaustive_cases': n1, 'witness': w}
    json.dump(out, sys.stdout)


if __name__ == '__main__':
    main()
