"""C09 - writer enforces section order; rejected calls are atomic; output is
append-only."""
import json
import sys

from props.common import Check, native
from pyvc import verify, smt
from contracts import writer as W
from specs import sections as SP

METHODS = ['__init__', 'new_change', 'new_file', 'write_preamble',
           'write_meta', 'write_diff']


def build(tag):
    eng = verify.Engine()
    W.register(eng, tag if tag != '-' else None)
    return eng


def main():
    chk = Check('C09')
    if chk.replay_file:
        rp = json.load(open(chk.replay_file))
        out = native('C09', {'op': 'replay', 'witness': rp['witness']})
        print(json.dumps(out, indent=1))
        return 0 if out['ok'] else 1
    jobs = [(W.QN + '__init__', '-')]
    for m in METHODS[1:]:
        for prev in SP.NINE:
            jobs.append((W.QN + m, prev))
    chk.verify_parallel(build, jobs, timeout_s=30, procs=14)
    chk.trusted += [
        'inlined (real ASTs executed at the call sites): ' + ', '.join(
            W.INLINE),
        'contract of DiffXWriter._prepare_content assumed at its call site: '
        'pure w.r.t. writer state and stream, raises DiffXContentError iff '
        'content is empty and DiffXOptionValueChoiceError iff line_endings '
        'is invalid (verified in the C02 check)',
        'A-io: stream write appends; A-py %-formatting / sorted / join',
        'argument domain: encoding None or a non-empty str; indent None or '
        'int; the object is in a state reachable after construction '
        '(previous section one of the nine ids, stack depth matching)']
    state = {}

    def find(oid, status, model):
        if 'r' not in state:
            state['r'] = native('C09', {'op': 'bounded', 'maxlen': 3,
                                        'seed': chk.seed, 'random': 2000},
                                timeout=1200)
        w = state['r']['witness']
        return {'witness': w, 'native': w} if w else None
    chk.handle_failed(find, function='DiffXWriter.*')
    if not chk.violations:
        if 'r' not in state:
            state['r'] = native('C09', {
                'op': 'bounded', 'maxlen': 3 if chk.tier == 'quick' else 5,
                'seed': chk.seed,
                'random': 2000 if chk.tier == 'quick' else 50000},
                timeout=3000)
        r = state['r']
        chk.bounded.append({
            'what': 'all sequences of valid calls up to the bound, each also '
                    'with every invalid-argument variant injected at every '
                    'position, plus random longer sequences; accept/reject '
                    'vs hierarchy, nothing written on rejection, twin-writer '
                    'equivalence, append-only',
            'bound': 'length <= %d' % (3 if chk.tier == 'quick' else 5),
            'evaluations': r['evaluations'],
            'distinct_nontrivial': r['distinct_nontrivial']})
        if r['witness']:
            chk.report_violation('bounded.call_sequences',
                                 {'witness': r['witness']}, True,
                                 what=r['witness']['error'])
    return chk.finish(
        'proof',
        'Every public writer method is verified, for each of the nine '
        'states the writer can be in, against: accepted => the target '
        'section may follow; DiffXSectionOrderError => it may not; every '
        'exception of any type leaves the level stack, the previous-section '
        'marker and the output unchanged (atomicity); on acceptance the '
        'output grows by exactly the rendered header plus the prepared '
        'content (append-only) and the stack follows the specification rule. '
        'Induction over call sequences is by the object invariant.')


if __name__ == '__main__':
    sys.exit(main())
