"""C15 - newline and BOM handling depends on the codec, not on the spelling."""
import json
import sys

from props.common import Check, native
from pyvc import verify, smt
from contracts import text_funcs as TF


def build(tag):
    eng = verify.Engine()
    if tag.startswith('prep:'):
        from contracts import writer as W
        W.register(eng, tag[5:], own_prepare=True)
    else:
        getattr(TF, 'register_' + tag)(eng)
    return eng


def main():
    chk = Check('C15')
    if chk.replay_file:
        rp = json.load(open(chk.replay_file))
        out = native('C15', {'op': 'replay', 'witness': rp['witness']})
        print(json.dumps(out, indent=1))
        return 0 if out['ok'] else 1
    jobs = [(TF.T_STRIP, 'strip'), (TF.T_NEWLINE, 'newline'),
            (TF.T_GUESS, 'guess')]
    # the writer's use of the stripped newline (append / split / indent)
    from contracts import writer as W
    jobs += [(W.QN + '_prepare_content', 'prep:' + p)
             for p in ('diffx', '..file')]
    chk.verify_parallel(build, jobs, timeout_s=30, procs=5)
    chk.trusted += [
        'A-codec: codecs.lookup(name).name is the canonical name (Canon, '
        'uninterpreted), lookup fails iff the codec is unknown; str.encode '
        'is an uninterpreted function of (codec name, text)',
        'BOMSPEC (contracts/text_funcs.py) lists which byte-order marks a '
        'canonical codec may emit; the finite table obligations below '
        'compare the library with each codec\'s own incremental encoder',
        'platform dependence: the codec table is the one of /venv/bin/python']
    # finite table obligations, evaluated exhaustively over the platform's
    # codec table (counted as obligations discharged by evaluation)
    t = native('C15', {'op': 'table', 'tier': chk.tier}, timeout=3000)
    by_obl = {}
    for f in t['failures']:
        by_obl.setdefault(f['obligation'], []).append(f)
    for obl, text in (
            ('T1.newline', 'get_newline_for_type(kind, spelling) equals the '
                           'codec\'s incremental-encoder output for LF/CRLF '
                           'after a first character (BOM-free), for every '
                           'stateless text codec and spelling'),
            ('T2.unbordered_spacefree', 'every such newline is non-empty, '
                                        'unbordered and contains no 0x20'),
            ('T2.strip_idempotent', 'strip_bom leaves a BOM-free newline '
                                    'unchanged'),
            ('T3.guess', 'guess_line_endings on encoded text returns the '
                         'same kind and newline'),
            ('T4.roundtrip', 'writer -> reader gives the same text / '
                             'metadata for every spelling'),
            ('T4.same_bytes', 'written bytes are identical across spellings '
                              'of one codec apart from the spelled name')):
        fs = by_obl.get(obl, [])
        chk.add_eval_obligation('table.' + obl, not fs, text,
                                witness=fs[0] if fs else None)
    chk.bounded.append({
        'what': 'the table obligations ARE an exhaustive evaluation over '
                'the platform codec table (stateless text codecs x spelling '
                'variants matching the option-value grammar x unix/dos)',
        'bound': '%d codecs, %d spellings' % (t['codecs'], t['spellings']),
        'evaluations': t['evaluations'],
        'distinct_nontrivial': t['spellings'], 'exhaustive': True,
        'samples': t['samples']})

    def find(oid, status, model):
        if t['failures']:
            f = t['failures'][0]
            if 'spelling' in f:
                return {'witness': f, 'native': f}
        return None
    chk.handle_failed(find, function='pydiffx.utils.text')
    return chk.finish(
        'proof',
        'strip_bom is verified to be a function of the data and the '
        'CANONICAL codec name only (result == SpecStrip(data, '
        'Canon(encoding))), get_newline_for_type returns the BOM-stripped '
        'encoding of the newline text of the requested kind and raises '
        'ValueError exactly for an unknown kind, guess_line_endings '
        'implements first-line detection with those newlines - for all '
        'inputs.  The facts about the concrete codecs are finite table '
        'obligations evaluated exhaustively over the platform\'s codec '
        'table against an oracle that does not depend on the spelling.',
        extra_cov={'exhaustive': True})


if __name__ == '__main__':
    sys.exit(main())
