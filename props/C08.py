"""C08 - reader error contract: any bytes give records or a positioned parse
error; the object model raises only the library's errors and closes the
stream."""
import ast
import json
import sys

from props.common import Check, native
from pyvc import verify, smt, extract
from contracts import (reader_until, reader_header, reader_iter, errors_c,
                       text_funcs as TF, text_split)
from contracts import reader_process as RP
from specs import sections as SP


def build(tag):
    eng = verify.Engine()
    kind, val = tag.split(':', 1)
    if kind == 'it':
        reader_iter.register(eng, val)
    elif kind == 'hdr':
        c = reader_header.register(eng, strict=True)
        from pyvc.verify import Const, NoneT
        alts = {'none': NoneT(), 'lf': Const(b'\n'), 'crlf': Const(b'\r\n')}
        c.params['self'].fields['_file_newlines'] = alts[val]
    elif kind == 'rc':
        RP.register_read(eng, with_short_read=False)
    elif kind == 'pc':
        RP.register_process(eng)
    elif kind == 'ru':
        reader_until.register(eng)
    elif kind == 'err':
        errors_c.register(eng)
    elif kind == 'tf':
        getattr(TF, 'register_' + val)(eng)
    elif kind == 'sl':
        text_split.register(eng, [text_split.NEWLINES[int(val)]])
    return eng


def dom_structure_obligations(chk):
    """DiffXDOMReader.parse: the whole parse runs inside `with stream:` (so
    the stream is closed on every exit, A-py semantics of `with`), and
    from_stream / from_bytes only forward to it."""
    fi = extract.find_function('pydiffx.dom.reader.DiffXDOMReader.parse')
    body = extract.body_of(fi)
    ok = (len(body) == 2 and isinstance(body[0], ast.With) and
          len(body[0].items) == 1 and
          isinstance(body[0].items[0].context_expr, ast.Name) and
          body[0].items[0].context_expr.id == 'stream' and
          isinstance(body[1], ast.Return))
    chk.functions.append(fi.describe())
    chk.add_eval_obligation(
        'dom.parse.stream_closed_on_every_exit', ok,
        'the body of DiffXDOMReader.parse is `with stream: ...` followed by '
        'the return (structural obligation on the real AST)')
    fi2 = extract.find_function('pydiffx.dom.objects.DiffX.from_stream')
    b2 = extract.body_of(fi2)
    ok2 = (len(b2) == 1 and isinstance(b2[0], ast.Return) and
           'parse(stream)' in ast.unparse(b2[0]))
    chk.functions.append(fi2.describe())
    chk.add_eval_obligation(
        'dom.from_stream.forwards_to_parse', ok2,
        'DiffX.from_stream returns DiffXDOMReader(cls).parse(stream)')


def main():
    chk = Check('C08')
    if chk.replay_file:
        rp = json.load(open(chk.replay_file))
        out = native('C08', {'op': 'replay', 'witness': rp['witness']})
        print(json.dumps(out, indent=1))
        return 0 if out['ok'] else 1
    dom_structure_obligations(chk)
    jobs = [(reader_until.NAME, 'ru:-'), (RP.RC, 'rc:-'), (RP.PC, 'pc:-'),
            (errors_c.NAME, 'err:-'),
            (TF.T_STRIP, 'tf:strip'), (TF.T_NEWLINE, 'tf:newline'),
            (TF.T_GUESS, 'tf:guess'),
            (text_split.NAME, 'sl:1'), (text_split.NAME, 'sl:3')]
    jobs += [(reader_header.NAME, 'hdr:' + v) for v in ('none', 'lf', 'crlf')]
    jobs += [(reader_iter.NAME, 'it:' + v) for v in [SP.START] + SP.NINE]
    chk.verify_parallel(build, jobs, timeout_s=40, procs=14)
    chk.trusted += [
        'exception freedom is relative to the models of the builtins '
        '(A-py/A-bytes/A-io/A-codec/A-re/A-json): every modelled operation '
        'that can raise forks an exceptional path which must be caught, '
        'converted or infeasible',
        'A-json: json.loads raises only ValueError / RecursionError',
        'assumption: content sections are shorter than 4 GiB (regex repeat '
        'limit) and the stream is a seekable in-memory-like stream',
        'termination: _read_until by its variant; the main loop and the '
        'blank-line loop consume at least one byte per iteration (variant '
        'on the stream position in _read_header); not proved for '
        'iter_sections as a whole (bounded layer uses a watchdog)',
        'object-model loading: only the closing of the stream is a '
        '(structural) obligation; the error-family claim for the DOM is '
        'bounded (fuzz) - see known finding']
    kn = native('C08', {'op': 'known'})
    if not kn['reproduces']:
        print('NOTE: known finding C08#dom-attribute-options no longer '
              'reproduces')
    state = {}

    def run_bounded(n):
        return native('C08', {'op': 'bounded', 'seed': chk.seed, 'n': n},
                      timeout=3000)

    def find(oid, status, model):
        if 'r' not in state:
            state['r'] = run_bounded(4000)
        w = state['r']['witness']
        return {'witness': w, 'native': w} if w else None
    chk.handle_failed(find, function='reader')
    if not chk.violations:
        if 'r' not in state or chk.tier != 'quick':
            state['r'] = run_bounded(6000 if chk.tier == 'quick' else 150000)
        r = state['r']
        chk.bounded.append({
            'what': 'random bytes and byte/token/line-level corruptions of '
                    'writer-produced files (bad values for length, indent, '
                    'encoding, line_endings, unknown and non-text codecs, '
                    'mixed header newlines, truncation, container options '
                    'named like object-model attributes) through '
                    'list(DiffXReader) and DiffX.from_stream: exception '
                    'type, line number within the input, message vs '
                    'attributes, stream closed, 5 s watchdog',
            'bound': '%d inputs' % r['evaluations'],
            'evaluations': r['evaluations'],
            'distinct_nontrivial': r['evaluations'],
            'known_finding_cases': r['known']})
        if r['known']:
            k = chk.match_known('bounded.dom_error_family',
                                'dom-attribute-options')
            if k:
                chk.known_hits.append((k, 'bounded.dom_error_family'))
        if r['witness']:
            chk.report_violation('bounded.error_contract',
                                 {'witness': r['witness']}, True,
                                 what='%s: %s' % (r['witness']['where'],
                                                  r['witness']['error']))
    return chk.finish(
        'other',
        'Streaming reader: every function between the stream and the '
        'records (_read_until, _read_header, iter_sections, _read_content, '
        '_process_content, strip_bom, get_newline_for_type, '
        'guess_line_endings, split_lines) is verified to let only '
        'DiffXParseError escape (LookupError/UnicodeError are converted in '
        '_read_content), with linenum equal to the line counter on entry '
        '(>= 0), and DiffXParseError.__init__ builds the message from '
        'exactly those attributes.  Object model: the stream is closed on '
        'every exit (structural obligation); the error family of the DOM '
        'is bounded only and has a KNOWN FINDING (container options named '
        'like attributes).')


if __name__ == '__main__':
    sys.exit(main())
