"""Native side of C12: unknown options inserted into every header."""
import io
import json
import random
import re
import sys

from pydiffx.reader import DiffXReader

from props.native_gen import random_file

UNKNOWN = [(b'x', b'1'), (b'my-opt', b'value'), (b'Zz_9', b'a/b.c'),
           (b'n', b'-12'), (b'x-tz', b'-0700'), (b'w', b'1_0'),
           (b'lengthx', b'5'), (b'enc', b'utf-16'), (b'q', b'007')]
INTVAL = re.compile(r'-?[0-9]+')


def conv(v):
    s = v.decode('ascii')
    return int(s) if INTVAL.fullmatch(s) else s


def records(data):
    out = []
    for rec in DiffXReader(io.BytesIO(data)):
        out.append(rec)
    return out


def split_sections(data):
    """Offsets of header lines, found with the reader itself (line numbers)
    and re-located by scanning lengths - independent of option parsing."""
    pos = 0
    headers = []
    while pos < len(data):
        end = data.index(b'\n', pos)
        line = data[pos:end]
        headers.append((pos, end))
        m = re.search(br'length=(\d+)', line)
        pos = end + 1
        if m:
            pos += int(m.group(1))
    return headers


def insert_options(data, hidx, pairs, position):
    headers = split_sections(data)
    start, end = headers[hidx]
    line = data[start:end]
    head, sep, opts = line.partition(b': ')
    cur = opts.split(b', ') if sep else []
    new = [k + b'=' + v for k, v in pairs]
    position = min(position, len(cur))
    merged = cur[:position] + new + cur[position:]
    if not sep:
        head = line          # "#.change:" -> "#.change: a=b"
    newline = head + b': '[len(b':') if not sep else 0:] + b', '.join(merged) \
        if sep else head + b' ' + b', '.join(merged)
    return data[:start] + newline + data[end:]


def check_file(data, rng, tries):
    base = records(data)
    nheaders = len(base)
    evals = 0
    for _ in range(tries):
        hidx = rng.randrange(nheaders)
        npairs = rng.randrange(1, 4)
        pairs = rng.sample(UNKNOWN, npairs)
        position = rng.randrange(0, 6)
        mod = insert_options(data, hidx, pairs, position)
        evals += 1
        try:
            got = records(mod)
        except Exception as e:  # noqa
            return evals, {'file': mod.hex(), 'header': hidx,
                           'error': '%s: %s' % (type(e).__name__, e)}
        exp = [dict(r) for r in base]
        exp[hidx] = dict(exp[hidx])
        exp[hidx]['options'] = dict(exp[hidx]['options'])
        for k, v in pairs:
            exp[hidx]['options'][k.decode()] = conv(v)
        if got != exp:
            diffs = [i for i, (a, b) in enumerate(zip(got, exp)) if a != b]
            return evals, {'file': mod.hex(), 'header': hidx,
                           'pairs': [[k.decode(), v.decode()]
                                     for k, v in pairs],
                           'error': 'records differ at %r: %r vs %r' % (
                               diffs, [got[i] for i in diffs][:1],
                               [exp[i] for i in diffs][:1])}
    return evals, None


def bounded(seed, nfiles, tries):
    rng = random.Random(seed)
    evals = 0
    for _ in range(nfiles):
        calls, data = random_file(rng)
        e, w = check_file(data, rng, tries)
        evals += e
        if w:
            return evals, w
    return evals, None


def main():
    req = json.load(sys.stdin)
    if req['op'] == 'replay':
        w = req['witness']
        data = bytes.fromhex(w['file'])
        try:
            records(data)
            out = {'ok': False, 'detail': 'see witness: ' + w['error']}
        except Exception as e:  # noqa
            out = {'ok': False, 'detail': str(e)}
    else:
        e, w = bounded(req['seed'], req['files'], req['tries'])
        out = {'evaluations': e, 'distinct_nontrivial': e, 'witness': w}
    json.dump(out, sys.stdout)


if __name__ == '__main__':
    main()
