"""C05 - object model written then parsed gives back the same tree."""
import sys

from props.common import Check, native
from props import dom_common
from contracts import dom_scenarios as DS

WRITER_FUNCS = [
    'pydiffx.dom.objects.DiffX.to_bytes',
    'pydiffx.dom.writer.DiffXDOMWriter.write_stream',
    'pydiffx.dom.writer.DiffXDOMWriter._write_section',
    'pydiffx.dom.writer.DiffXDOMWriter._write_container_section',
    'pydiffx.dom.writer.DiffXDOMWriter._write_content_section',
    'pydiffx.dom.writer.DiffXDOMWriter._get_options']
READER_FUNCS = [
    'pydiffx.dom.reader.DiffXDOMReader.parse',
    'pydiffx.dom.reader.DiffXDOMReader._read_main_section',
    'pydiffx.dom.reader.DiffXDOMReader._read_change_section',
    'pydiffx.dom.reader.DiffXDOMReader._read_file_section',
    'pydiffx.dom.reader.DiffXDOMReader._read_preamble_section',
    'pydiffx.dom.reader.DiffXDOMReader._read_meta_section',
    'pydiffx.dom.reader.DiffXDOMReader._read_diff_section',
    'pydiffx.dom.reader.DiffXDOMReader._set_content_options']
COMPOSITION = [
    'COMPOSITION (not re-proved here): tree --(object-model writer: '
    'scenario obligations, this run)--> call sequence --(streaming writer: '
    'C02/C09 contracts)--> canonical bytes --(streaming reader: C01/C03/'
    'C04/C10-C12 contracts)--> records --(object-model reader: scenario '
    'obligations, this run)--> tree.  The two outer steps are discharged '
    'here for FIXED SHAPES with symbolic values; the inner steps are the '
    'other checks; the composed statement over whole trees is only '
    'exercised by the bounded layer',
    'the streaming writer is seen through a recording stub (every call '
    'with its bound arguments; no other effect); the streaming reader as '
    'an iterable of records of fixed length with symbolic fields',
    'expected call sequence: independent specification traversal of the '
    'tree snapshot (contracts/dom_scenarios.py expected_calls) with the '
    'writer API defaults and the option renaming table written by hand',
    'expected parsed tree: built in the driver with the public API '
    '(constructors, add_change/add_file, content setters, options '
    'clear/update), whose behaviour is the subject of C19']


def build_prep(tag):
    from pyvc import verify
    from contracts import writer as W
    W.INDENT_VALID = True
    eng = verify.Engine()
    W.register(eng, tag, own_prepare=True)
    return eng


def main():
    chk = Check('C05')
    if chk.replay_file:
        print(open(chk.replay_file).read()[:3000])
        return 1
    dom_common.describe_functions(chk, WRITER_FUNCS + READER_FUNCS)
    dom_common.run_scenarios(chk, DS.c05_scenarios(chk.tier)
                             + DS.c06_scenarios(chk.tier))
    # a tree only serialises with an indentation the reader accepts
    from contracts import writer as W
    chk.verify_parallel(build_prep, [(W.QN + '_prepare_content', p)
                                     for p in ('diffx', '.change')],
                        timeout_s=30, procs=8)
    chk.trusted += COMPOSITION
    state = {}

    def run_native(n):
        return native('dom', {'op': 'c05', 'seed': chk.seed, 'n': n},
                      timeout=3000)

    def find(oid, status, model):
        if 'r' not in state:
            state['r'] = run_native(1500)
        w = state['r']['witness']
        return {'witness': w, 'native': w} if w else None
    chk.handle_failed(find, function='pydiffx.dom')
    if not chk.violations:
        if 'r' not in state or chk.tier != 'quick':
            state['r'] = run_native(1500 if chk.tier == 'quick' else 40000)
        r = state['r']
        chk.bounded.append({
            'what': 'random trees built through constructors or typed '
                    'attributes from random well-ordered section sequences '
                    '(all encodings incl. aliases/UTF-16/32, indent, line '
                    'endings, mimetype, diff type; plus no change, changes '
                    'without files, files without metadata, empty content '
                    'sections carrying options): to_bytes == independent '
                    'specification serializer, from_bytes(to_bytes(t)) == '
                    'tree computed from the specification records (documented '
                    'normalisation), to_bytes leaves the tree unchanged, '
                    'second cycle reproduces the bytes; skipped: %r'
                    % (r.get('skipped'),),
            'bound': '%d trees' % r['evaluations'],
            'evaluations': r['evaluations'],
            'distinct_nontrivial': r.get('distinct_nontrivial', 0)})
        if r['witness']:
            chk.report_violation('bounded.tree_roundtrip',
                                 {'witness': r['witness']}, True,
                                 what=r['witness']['error'])
    return chk.finish(
        'other',
        'Scenario obligations on the object-model writer (the calls it '
        'makes on the streaming writer are exactly the specification '
        'traversal of the tree: order, omitted empty sections, option '
        'renaming, defaults; tree unchanged) and on the object-model reader '
        '(the tree built from a record sequence carries the record options '
        'verbatim minus length and the record contents, fresh defaults '
        'elsewhere), for fixed shapes with symbolic values; composed with '
        'the streaming-layer contracts of C01-C04/C09-C12.')


if __name__ == '__main__':
    sys.exit(main())
