"""C04 - encoding inheritance follows nesting; reader and writer agree."""
import json
import sys

from props.common import Check, native
from pyvc import verify, smt
from contracts import writer as W, reader_iter
from specs import sections as SP


def build(tag):
    eng = verify.Engine()
    kind, val = tag.split(':', 1)
    if kind == 'it':
        reader_iter.register(eng, val)
    elif kind == 'prep':
        W.register(eng, val, own_prepare=True)
    else:
        W.register(eng, val if val != '-' else None)
    return eng


def main():
    chk = Check('C04')
    if chk.replay_file:
        rp = json.load(open(chk.replay_file))
        out = native('C04', {'op': 'replay', 'witness': rp['witness']})
        print(json.dumps(out, indent=1))
        return 0 if out['ok'] else 1
    jobs = [(reader_iter.NAME, 'it:' + v) for v in [SP.START] + SP.NINE]
    jobs.append((W.QN + '__init__', 'w:-'))
    for prev in SP.NINE:
        for m in ('new_change', 'new_file', 'write_preamble', 'write_meta',
                  'write_diff'):
            jobs.append((W.QN + m, 'w:' + prev))
    for prev in ('diffx', '.change', '..file'):
        jobs.append((W.QN + '_prepare_content', 'prep:' + prev))
    chk.verify_parallel(build, jobs, timeout_s=30, procs=14)
    chk.trusted += [
        'contracts of _read_header / _read_content assumed at their call '
        'sites in iter_sections (verified in C10/C11 and C07/C08 checks)',
        'text-utility call contracts (strip_bom, guess_line_endings, '
        'split_lines) and A-codec newline facts (C15/C16 checks)',
        'agreement of reader and writer: both are tied to the same ghost '
        'rule eff\' = eff[:L] + [own or parent]; the header carries exactly '
        '`own` (writer bytes clause) and the reader reads it back '
        '(_read_header contract)']
    state = {}

    def find(oid, status, model):
        if 'r' not in state:
            state['r'] = native('C04', {'op': 'bounded', 'seed': chk.seed,
                                        'tier': 'quick'}, timeout=1800)
        w = state['r']['witness']
        return {'witness': w, 'native': w} if w else None
    chk.handle_failed(find, function='reader.iter_sections / writer')
    if not chk.violations:
        if 'r' not in state or chk.tier != 'quick':
            state['r'] = native('C04', {'op': 'bounded', 'seed': chk.seed,
                                        'tier': chk.tier}, timeout=3000)
        r = state['r']
        chk.bounded.append({
            'what': 'nesting histories (1-3 changes x 1-2 files, every '
                    'container and content section declaring or omitting '
                    'one of utf-8 / utf-16 / utf-32-be), file built by an '
                    'independent serializer and by the writer, decoded '
                    'text/metadata compared with the nearest-ancestor rule',
            'bound': 'shapes up to 3 changes; exhaustive assignments for '
                     'the small shapes, random for larger',
            'evaluations': r['evaluations'],
            'distinct_nontrivial': r['distinct_nontrivial']})
        if r['witness']:
            chk.report_violation('bounded.histories',
                                 {'witness': r['witness']}, True,
                                 what=r['witness']['error'])
    return chk.finish(
        'proof',
        'Reader: the main loop of iter_sections keeps its encoding stack '
        'equal to the ghost list of effective encodings maintained by the '
        'specification rule (inductive invariant, any nesting history), and '
        'every content read is handed `own or nearest ancestor` (diff: own '
        'only).  Writer: each container call leaves the level stack equal to '
        'the same rule; content calls pass their own encoding with '
        'inheritance requested exactly for preamble/meta; _prepare_content '
        'then uses `own or top of stack`.')


if __name__ == '__main__':
    sys.exit(main())
