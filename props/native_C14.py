"""Native side of C14: hunk sequences generated with known geometry, every
single-point damage, both garbage modes; plus all short line lists over a
small vocabulary."""
import itertools
import json
import random
import sys

from pydiffx.errors import MalformedHunkError
from pydiffx.utils.unified_diffs import get_unified_diff_hunks

MARKER = b'\\ No newline at end of file'
PAYLOADS = [b'x', b'-- old', b'++ new', b'@@ -1 +1 @@ not a header', b'',
            b' leading space', b'\tTab']


def make_hunk(rng, ostart, mstart):
    """Returns (lines, expected entry).  Body = sequence of ' ', '-', '+'
    lines with markers sprinkled in."""
    n = rng.randrange(0, 7)
    kinds = [rng.choice(' -+') for _ in range(n)]
    onum = sum(1 for k in kinds if k in ' -')
    mnum = sum(1 for k in kinds if k in ' +')
    # a hunk is complete once both counts are reached; avoid trailing lines
    # that would belong to nothing: regenerate until the LAST line completes
    body = []
    o = m = 0
    for k in kinds:
        body.append(k.encode() + rng.choice(PAYLOADS))
        if rng.random() < .15 and (o < onum or m < mnum):
            pass
    # markers may appear anywhere before the completing line
    lines = []
    o = m = 0
    exp_o = {'first_changed_line': None, 'last_changed_line': None,
             'num_lines': onum, 'num_lines_changed': 0,
             'start_line': ostart - 1}
    exp_m = {'first_changed_line': None, 'last_changed_line': None,
             'num_lines': mnum, 'num_lines_changed': 0,
             'start_line': mstart - 1}
    for idx, (k, l) in enumerate(zip(kinds, body)):
        if rng.random() < .12 and idx > 0:
            lines.append(MARKER)
        lines.append(l)
        if k == '-':
            if exp_o['first_changed_line'] is None:
                exp_o['first_changed_line'] = exp_o['start_line'] + o
            exp_o['last_changed_line'] = exp_o['start_line'] + o
            exp_o['num_lines_changed'] += 1
            o += 1
        elif k == '+':
            if exp_m['first_changed_line'] is None:
                exp_m['first_changed_line'] = exp_m['start_line'] + m
            exp_m['last_changed_line'] = exp_m['start_line'] + m
            exp_m['num_lines_changed'] += 1
            m += 1
        else:
            o += 1
            m += 1
    pre = []
    post = []
    for e in (exp_o, exp_m):
        if e['first_changed_line'] is not None:
            pre.append(e['first_changed_line'] - e['start_line'])
            post.append(e['num_lines'] -
                        (e['last_changed_line'] - e['start_line'] + 1))
    ctx = rng.choice([None, b'def f():', b''])
    def rng_part(start, num):
        if num == 1 and rng.random() < .5:
            return b'%d' % start
        return b'%d,%d' % (start, num)
    header = b'@@ -' + rng_part(ostart, onum) + b' +' + \
        rng_part(mstart, mnum) + b' @@'
    if ctx is not None:
        header += b' ' + ctx
    entry = {'context': ctx, 'orig': exp_o, 'modified': exp_m,
             'lines_of_context_pre': min(pre or [0]),
             'lines_of_context_post': min(post or [0])}
    degenerate = (onum == 0 and mnum == 0)
    return [header] + lines, entry, degenerate


def make_diff(rng):
    nh = rng.randrange(1, 4)
    lines = []
    hunks = []
    garbage_at = []
    for h in range(nh):
        if h and rng.random() < .4:
            garbage_at.append(len(lines))
            lines.append(rng.choice([b'diff --git a b', b'Index: x',
                                     b'garbage', b'--- a', b'+++ b']))
        hl, entry, degenerate = make_hunk(rng, rng.randrange(0, 40),
                                          rng.randrange(0, 40))
        if degenerate:
            continue
        lines += hl
        hunks.append(entry)
    return lines, hunks, garbage_at


def expected(lines, hunks, garbage_at, ignore_garbage):
    if garbage_at and not ignore_garbage:
        # parsing stops at the first garbage line between hunks
        cut = garbage_at[0]
        # hunks completed before the cut
        n = 0
        pos = 0
        out = []
        for e in hunks:
            # count lines of this hunk
            pass
        return None
    return {
        'hunks': hunks, 'num_processed_lines': len(lines),
        'total_deletes': sum(h['orig']['num_lines_changed'] for h in hunks),
        'total_inserts': sum(h['modified']['num_lines_changed']
                             for h in hunks),
    }


def run(lines, ignore_garbage):
    try:
        return 'ok', get_unified_diff_hunks(lines, ignore_garbage)
    except MalformedHunkError as e:
        return 'malformed', (e.line, e.line_num)
    except Exception as e:  # noqa
        return 'other', '%s: %s' % (type(e).__name__, e)


def check_generated(rng):
    lines, hunks, garbage_at = make_diff(rng)
    if not hunks:
        return None
    # the known marker-after-completed-hunk behaviour is avoided by the
    # generator (markers only before the completing line)
    for ig in (True, False):
        if garbage_at and not ig:
            kind, res = run(lines, ig)
            if kind != 'ok' or res['num_processed_lines'] != garbage_at[0]:
                return {'lines': [l.hex() for l in lines], 'ignore': ig,
                        'error': 'garbage between hunks: %s %r, expected to '
                                 'stop at %d' % (kind, res if kind != 'ok'
                                                 else res['num_processed_lines'],
                                                 garbage_at[0])}
            continue
        exp = expected(lines, hunks, garbage_at, ig)
        kind, res = run(lines, ig)
        if kind != 'ok' or res != exp:
            return {'lines': [l.hex() for l in lines], 'ignore': ig,
                    'error': 'geometry: %s %r != %r' % (
                        kind, res, exp)}
    # single-point damages (only on garbage-free diffs)
    if garbage_at:
        return None
    body_idx = [i for i, l in enumerate(lines) if not l.startswith(b'@@')]
    hdr_idx = [i for i, l in enumerate(lines) if l.startswith(b'@@ -')]
    if body_idx:
        i = rng.choice(body_idx)
        # (a) a line that is not context/insert/delete/marker inside a hunk
        bad = lines[:i] + [b'garbage line'] + lines[i:]
        # the inserted line sits before body line i, hence inside a hunk
        for ig in (True, False):
            kind, res = run(bad, ig)
            if kind != 'malformed' or res != (b'garbage line', i + 1):
                return {'lines': [l.hex() for l in bad], 'ignore': ig,
                        'error': 'damaged hunk body: %s %r, expected '
                                 'MalformedHunkError at line %d' % (
                                     kind, res, i + 1)}
        # (b) hunk ends early (drop the last body line of the last hunk)
        last = body_idx[-1]
        if last == len(lines) - 1 and lines[last] != MARKER:
            cut = lines[:last]
            if cut and not cut[-1].startswith(b'@@ -0,0') :
                kind, res = run(cut, False)
                if kind == 'other':
                    return {'lines': [l.hex() for l in cut], 'ignore': False,
                            'error': 'early end: %r' % (res,)}
    # (d) one changed line attributed to the wrong side: the hunk then has
    # one line too many on one side and one too few on the other; it can
    # never complete, so the next header (or the end of input) must be
    # reported - never a silently accepted hunk
    flip_idx = [i for i in body_idx if lines[i][:1] in (b'+', b'-')]
    if flip_idx:
        i = rng.choice(flip_idx)
        other = b'-' if lines[i][:1] == b'+' else b'+'
        bad = lines[:i] + [other + lines[i][1:]] + lines[i + 1:]
        nxt = [j for j in hdr_idx if j > i]
        for ig in (True, False):
            kind, res = run(bad, ig)
            if kind != 'malformed':
                return {'lines': [l.hex() for l in bad], 'ignore': ig,
                        'error': 'changed line on the wrong side: %s, '
                                 'expected MalformedHunkError (hunk cannot '
                                 'complete)' % kind}
            if nxt and res != (bad[nxt[0]], nxt[0] + 1):
                return {'lines': [l.hex() for l in bad], 'ignore': ig,
                        'error': 'changed line on the wrong side: error at '
                                 '%r, expected at the interrupting header '
                                 'line %d' % (res, nxt[0] + 1)}
    if len(hdr_idx) > 1:
        # (c) a header interrupting the previous hunk: drop the line before
        i = hdr_idx[1]
        if i - 1 in body_idx and lines[i - 1] != MARKER:
            bad = lines[:i - 1] + lines[i:]
            kind, res = run(bad, False)
            if kind != 'malformed' or res != (lines[i], i):
                return {'lines': [l.hex() for l in bad], 'ignore': False,
                        'error': 'interrupting header: %s %r, expected '
                                 'MalformedHunkError at line %d' % (
                                     kind, res, i)}
    return None


VOCAB = [b'@@ -1 +1 @@', b'@@ -1,2 +1,0 @@', b'@@ junk', b'-a', b'+b', b' c',
         MARKER, b'garbage', b'']


def small_lists(maxlen):
    n = 0
    for ln in range(0, maxlen + 1):
        for tup in itertools.product(VOCAB, repeat=ln):
            n += 1
            for ig in (True, False):
                kind, res = run(list(tup), ig)
                if kind == 'other':
                    return n, {'lines': [l.hex() for l in tup], 'ignore': ig,
                               'error': 'escaped ' + res}
                if kind == 'malformed':
                    line, num = res
                    if not (1 <= num <= len(tup) and tup[num - 1] == line):
                        return n, {'lines': [l.hex() for l in tup],
                                   'ignore': ig,
                                   'error': 'error position %r' % (res,)}
                if kind == 'ok':
                    if not (0 <= res['num_processed_lines'] <= len(tup)):
                        return n, {'lines': [l.hex() for l in tup],
                                   'ignore': ig, 'error': 'processed count'}
    return n, None


def bounded(seed, n, maxlen):
    e0, w = small_lists(maxlen)
    if w:
        return {'evaluations': e0, 'witness': w}
    rng = random.Random(seed)
    evals = e0
    for _ in range(n):
        evals += 1
        w = check_generated(rng)
        if w:
            return {'evaluations': evals, 'witness': w}
    return {'evaluations': evals, 'witness': None}


def main():
    req = json.load(sys.stdin)
    if req['op'] == 'replay':
        w = req['witness']
        kind, res = run([bytes.fromhex(x) for x in w['lines']],
                        w.get('ignore', False))
        out = {'ok': False, 'observed': [kind, repr(res)],
               'claimed': w.get('error')}
    else:
        out = bounded(req['seed'], req['n'], req['maxlen'])
    json.dump(out, sys.stdout)


if __name__ == '__main__':
    main()
