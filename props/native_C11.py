"""Native side of C11: single header lines in a valid context."""
import io
import itertools
import json
import random
import re
import sys

from pydiffx.errors import DiffXParseError
from pydiffx.reader import DiffXReader

# the specification's grammar, written from the statement
HDR = re.compile(
    br'#\.{0,3}(diffx|preamble|meta|change|file|diff):'
    br'( [A-Za-z][A-Za-z0-9_-]*=[A-Za-z0-9/._-]+'
    br'(, [A-Za-z][A-Za-z0-9_-]*=[A-Za-z0-9/._-]+)*)?')
INTVAL = re.compile(r'-?[0-9]+')
ALPHABET = [b'a', b'Z', b'0', b'9', b'_', b'-', b'.', b'/', b'=', b',', b' ',
            b'\t', b'#', b':', b'+', b'\xc3', b'\xa9']


def expected_options(line):
    m = HDR.fullmatch(line)
    if not m:
        return None
    opts = {}
    rest = line.split(b':', 1)[1]
    if rest:
        for pair in rest[1:].split(b', '):
            k, v = pair.split(b'=', 1)
            v = v.decode('ascii')
            if INTVAL.fullmatch(v) and len(v) <= 4300:
                v = int(v)
            opts[k.decode('ascii')] = v
    return opts


def observe(line):
    """The line is placed as a '.change' header after a valid main header
    (a context in which '.change' is allowed)."""
    data = b'#diffx: version=1.0\n' + line + b'\n'
    try:
        recs = []
        for rec in DiffXReader(io.BytesIO(data)):
            recs.append(rec)
            if len(recs) == 2:
                break
        if len(recs) < 2:
            return 'eof', None
        return 'accepted', recs[1]['options']
    except DiffXParseError as e:
        return 'parse-error', e.linenum
    except Exception as e:  # noqa
        return 'other:%s' % type(e).__name__, str(e)


def check_line(optstr):
    line = b'#.change:' + optstr
    exp = expected_options(line)
    kind, val = observe(line)
    if b'\n' in optstr:
        return None
    if exp is None:
        if kind != 'parse-error':
            return {'line': line.hex(), 'expected': 'parse error',
                    'observed': [kind, repr(val)]}
    else:
        if kind != 'accepted' or val != exp:
            return {'line': line.hex(), 'expected': repr(exp),
                    'observed': [kind, repr(val)]}
    return None


def bounded(maxlen, seed, nrandom):
    evals = 0
    nontrivial = 0
    for ln in range(0, maxlen + 1):
        for tup in itertools.product(ALPHABET, repeat=ln):
            optstr = b''.join(tup)
            evals += 1
            w = check_line(optstr)
            if w:
                return evals, nontrivial, w
            if optstr.startswith(b' '):
                nontrivial += 1
    rng = random.Random(seed)
    keys = [b'a', b'Ab-c_1', b'x', b'length', b'9a', b'a+b', b'\xc3\xa9']
    vals = [b'b', b'1', b'-12', b'1_0', b'a/b.c', b'b=c', b'b+', b'',
            b'007', b'x\xff', b'--1', b'9' * 40]
    seps = [b', ', b',', b' ,', b',  ', b', ']
    for _ in range(nrandom):
        n = rng.randrange(1, 4)
        parts = []
        for k in range(n):
            parts.append(rng.choice(keys) + rng.choice([b'=', b'=', b'==',
                                                        b' = ']) +
                         rng.choice(vals))
        s = rng.choice([b' ', b' ', b'', b'  ']) + rng.choice(seps).join(parts)
        evals += 1
        nontrivial += 1
        w = check_line(s)
        if w:
            return evals, nontrivial, w
    return evals, nontrivial, None


def main():
    req = json.load(sys.stdin)
    if req['op'] == 'replay':
        line = bytes.fromhex(req['witness']['line'])
        w = check_line(line[len(b'#.change:'):])
        out = {'ok': w is None, 'detail': w}
    else:
        e, d, w = bounded(req['maxlen'], req['seed'], req['random'])
        out = {'evaluations': e, 'distinct_nontrivial': d, 'witness': w}
    json.dump(out, sys.stdout)


if __name__ == '__main__':
    main()
