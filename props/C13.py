"""C13 - generated statistics are exact, additive, idempotent and
non-destructive."""
import json
import sys

from props.common import Check, native
from props import dom_common
from contracts import dom_scenarios as DS


def main():
    chk = Check('C13')
    if chk.replay_file:
        print(open(chk.replay_file).read()[:3000])
        return 1
    dom_common.describe_functions(chk, [
        'pydiffx.dom.objects.DiffX.generate_stats',
        'pydiffx.dom.objects.DiffXChangeSection.generate_stats',
        'pydiffx.dom.objects.DiffXFileSection.generate_stats',
        'pydiffx.dom.properties.OptionProperty.__get__',
        'pydiffx.dom.properties.SubsectionAttrProperty.__get__',
        'pydiffx.dom.objects.BaseDiffXContentSection.content'])
    dom_common.run_scenarios(chk, DS.c13_scenarios(chk.tier))
    chk.trusted += [
        'scenario verification on trees of FIXED SHAPES (files per change: '
        '(1) (2) (1,1) (0) and no change; thorough adds (2,1) (3)) with '
        'symbolic diffs, diff options, metadata and pre-existing stats '
        'dictionaries: unbounded in values, bounded in shape.  The '
        'aggregation loops are unrolled for these shapes, not cut by an '
        'invariant (the heap model has no symbolic lists of objects)',
        'get_newline_for_type, guess_line_endings, split_lines and '
        'get_unified_diff_hunks are seen through stub contracts: pure, '
        'deterministic (uninterpreted) functions of their arguments that '
        'may raise on an (uninterpreted) condition of their arguments. '
        'The obligations here are which arguments they get (diff, declared '
        'or guessed newline in the diff encoding, keep_ends off, '
        'ignore_garbage on) and what is done with their results; that the '
        'parser totals ARE the number of +/- lines inside hunks is the C14 '
        'contract, that the lines ARE the lines of the diff is C16',
        'the expected tree after generate_stats is computed by an '
        'independent specification function over the snapshot '
        '(contracts/dom_scenarios.py SPEC_STATS): whole-tree equality, so '
        'everything not mentioned must be unchanged',
        'A-logging: logger.error has no effect on the tree',
        'KNOWN FINDING (bounded layer): diffs in a multi-byte encoding get '
        '0/0 - the hunk parser looks for ASCII markers in the encoded lines; '
        'in the deductive layer this is invisible because C14 is stated over '
        'the byte lines']
    state = {}

    def run_native(n):
        return native('dom', {'op': 'c13', 'seed': chk.seed, 'n': n},
                      timeout=3000)

    def find(oid, status, model):
        if 'r' not in state:
            state['r'] = run_native(1500)
        w = state['r']['witness']
        return {'witness': w, 'native': w} if w else None
    chk.handle_failed(find, function='pydiffx.dom')
    kn = native('dom_known', {'op': 'c13_utf16'})
    if kn['reproduces']:
        k = chk.match_known('bounded.stats_multibyte_diff',
                            'multibyte-diff-encoding')
        if k:
            chk.known_hits.append((k, 'bounded.stats_multibyte_diff'))
        else:
            chk.report_violation('bounded.stats_multibyte_diff',
                                 {'witness': kn}, True,
                                 witness_class='multibyte-diff-encoding',
                                 what='UTF-16 diff: statistics ' +
                                 kn['stats'])
    if not chk.violations:
        if 'r' not in state or chk.tier != 'quick':
            state['r'] = run_native(1500 if chk.tier == 'quick' else 60000)
        r = state['r']
        chk.bounded.append({
            'what': 'random trees (0-3 changes x 0-3 files); diffs assembled '
                    'from generated hunks with known counts, garbage lines '
                    '(incl. "+..."/"-..." outside hunks, "---"/"+++" inside), '
                    'unix/dos endings, explicit/implicit line_endings, '
                    'ASCII-compatible encodings, binary / empty / absent / '
                    'truncated diffs, pre-existing stats with custom keys: '
                    'file, change and top-level figures versus ground truth; '
                    'preservation; twice == once.  12%% of the trees use '
                    'UTF-16/32 diffs: failures there are the known class '
                    '(%d trees)' % r.get('known_class_hits', 0),
            'bound': '%d trees' % r['evaluations'],
            'evaluations': r['evaluations'],
            'distinct_nontrivial': r.get('distinct_nontrivial', 0)})
        if r['witness']:
            chk.report_violation('bounded.stats_ground_truth',
                                 {'witness': r['witness']}, True,
                                 what=r['witness']['error'])
    return chk.finish(
        'other',
        'For each tree shape, with every value symbolic: the tree after '
        'generate_stats() equals the tree the specification computes from '
        'the tree before - analysed files (non-empty, not binary, splitter '
        'and parser did not raise) carry exactly the parser totals for '
        'split_lines(diff, declared-or-guessed newline) and their sum, '
        'merged into an existing stats dictionary; every other file is '
        'untouched; changes carry the file count and the sums of what their '
        'files report, the top level the change count and the sums over '
        'changes; every other key, option and section is unchanged; a second '
        'generation changes nothing.')


if __name__ == '__main__':
    sys.exit(main())
