"""C02 - the writer emits only spec-conformant, canonical bytes."""
import ast
import json
import sys

from props.common import Check, native
from pyvc import verify, smt, extract
from contracts import writer as W
from specs import sections as SP

METHODS = ['new_change', 'new_file', 'write_preamble', 'write_meta',
           'write_diff']


def build(tag):
    eng = verify.Engine()
    kind, val = tag.split(':', 1)
    if kind == 'tf':
        from contracts import text_funcs as TF
        getattr(TF, 'register_' + val)(eng)
    elif kind == 'prep':
        W.register(eng, val, own_prepare=True)
    else:
        W.register(eng, val if val != '-' else None)
    return eng


def json_dumps_obligation(chk):
    fi = extract.find_function(W.QN + 'write_meta')
    ok = False
    found = None
    for n in ast.walk(fi.node):
        if isinstance(n, ast.Call) and ast.unparse(n.func) == 'json.dumps':
            kw = {k.arg: ast.unparse(k.value) for k in n.keywords}
            found = kw
            ok = (kw.get('indent') == '4' and kw.get('sort_keys') == 'True'
                  and kw.get('separators') == "(',', ': ')"
                  and len(n.args) == 1)
    chk.add_eval_obligation(
        'write_meta.json_dumps_arguments', ok,
        'metadata is serialised with json.dumps(metadata, indent=4, '
        'sort_keys=True, separators=(",", ": ")) (syntactic obligation on '
        'the real AST)', witness={'found': found})


def main():
    chk = Check('C02')
    if chk.replay_file:
        rp = json.load(open(chk.replay_file))
        print(json.dumps(rp.get('witness'), indent=1)[:3000])
        return 1
    json_dumps_obligation(chk)
    jobs = [(W.QN + '__init__', 'w:-')]
    for m in METHODS:
        for prev in SP.NINE:
            jobs.append((W.QN + m, 'w:' + prev))
    for prev in ('diffx', '.change', '..file'):
        jobs.append((W.QN + '_prepare_content', 'prep:' + prev))
    from contracts import text_funcs as TF
    jobs += [(TF.T_STRIP, 'tf:strip'), (TF.T_GUESS, 'tf:guess')]
    chk.verify_parallel(build, jobs, timeout_s=30, procs=14)
    chk.trusted += [
        'RenderHeader (contracts/writer.py) is the specification-side '
        'serializer of a header: "#" id ":" [" " k=v (", " k=v)*] "\\n", keys '
        'ascending, None dropped',
        'Prepare: _prepare_content is verified to end the block with the '
        'BOM-free newline of the effective encoding and to indent every '
        'line of the encoded content (IndentedPrefix over split_lines); the '
        'codec facts are A-codec (C15 table)',
        'split_lines / strip_bom / guess_line_endings by their call '
        'contracts (C15, C16)',
        'A-json: json.dumps with those arguments is canonical',
        'header values are assumed to match the option-value grammar '
        '(encoding names); the bounded layer checks every emitted header '
        'against the grammar']
    state = {}

    def run_bounded(n, lim):
        return native('C02', {'op': 'bounded', 'seed': chk.seed, 'random': n,
                              'limit': lim, 'bytes': True,
                              'records': False}, timeout=3000)

    def find(oid, status, model):
        if 'r' not in state:
            state['r'] = run_bounded(1500, 600)
        w = state['r']['witness']
        return {'witness': w, 'native': w} if w else None
    chk.handle_failed(find, function='DiffXWriter')
    if not chk.violations:
        if 'r' not in state or chk.tier != 'quick':
            q = chk.tier == 'quick'
            state['r'] = run_bounded(2500 if q else 60000,
                                     1500 if q else 100000)
        r = state['r']
        chk.bounded.append({
            'what': 'writer output compared byte for byte with an '
                    'independent serializer derived from the specification '
                    '(props/native_spec.py) and every emitted header checked '
                    'against the grammar and for alphabetical option order: '
                    'a fixed structure x all combinations of 5 texts x 7 '
                    'encodings x indent {0,1,4} x line_endings x container '
                    'encoding, plus 600 encoding-scope histories (the same '
                    'explicit-option content calls under successive '
                    'containers of differing effective encoding), plus '
                    'random call sequences',
            'bound': '%d combinations + random sequences' % r['evaluations'],
            'evaluations': r['evaluations'],
            'distinct_nontrivial': r['evaluations']})
        if r['witness']:
            chk.report_violation('bounded.bytes_vs_spec_serializer',
                                 {'witness': r['witness']}, True,
                                 what=r['witness']['error'][:300])
    return chk.finish(
        'proof',
        'Every public writer method, in every reachable state, appends '
        'exactly RenderHeader(target id, options) + the prepared block '
        '(length option = len(block)); the target id is the one the '
        'hierarchy prescribes; _prepare_content ends the block with the '
        'BOM-free newline of the effective encoding and indents every line '
        'after encoding; metadata goes through json.dumps with the canonical '
        'arguments.  By the object invariant this holds for every accepted '
        'call sequence.')


if __name__ == '__main__':
    sys.exit(main())
