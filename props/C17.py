"""C17 - reader output does not depend on stream chunking / header alignment.

Deductive part: DiffXReader._read_until verified against its contract for all
streams, positions and chunk sizes (loop cut at the sidecar invariant).
"""
import sys

from props.common import Check, native
from pyvc import verify, smt
from contracts import reader_until


def to_bytes_hex(s):
    return bytes(ord(ch) & 0xff for ch in s).hex()


def concretize(model):
    w = {}
    for k, v in model.items():
        base = k.split('!')[0]
        if base == 'self__fp_data':
            w['data'] = to_bytes_hex(v)
        elif base == 'self__fp_pos':
            w['pos0'] = v
        elif base == 'c':
            w['c'] = to_bytes_hex(v)
        elif base == 'chunk_size':
            w['chunk_size'] = v
    if len(w) == 4 and w['c']:
        n = len(bytes.fromhex(w['data']))
        w['pos0'] = min(max(w['pos0'], 0), n)
        w['chunk_size'] = max(1, w['chunk_size'])
        return w
    return None


def build_hdr(tag):
    from contracts import reader_header
    from pyvc.verify import Const, NoneT
    eng = verify.Engine()
    c = reader_header.register(eng, strict=True)
    alts = {'none': NoneT(), 'lf': Const(b'\n'), 'crlf': Const(b'\r\n')}
    c.params['self'].fields['_file_newlines'] = alts[tag]
    return eng


def main():
    chk = Check('C17')
    if chk.replay_file:
        import json
        rp = json.load(open(chk.replay_file))
        out = native('C17', {'op': 'replay', 'witness': rp['witness']})
        print(json.dumps(out, indent=1))
        return 0 if out['ok'] else 1
    eng = verify.Engine()
    reader_until.register(eng)
    chk.verify_functions(eng, [reader_until.NAME], timeout_s=40)
    # the contract of _read_until has a precondition (one-byte delimiter,
    # positive block size, stream position in range): it is an obligation
    # at every call site - the only caller is _read_header
    from contracts import reader_header
    chk.verify_parallel(
        build_hdr, [(reader_header.NAME, t) for t in ('none', 'lf', 'crlf')],
        timeout_s=30, procs=3,
        keep=lambda label: label.startswith('_read_until@call'))
    chk.trusted.append('call sites: only the obligations `_read_until@call*.'
                       'pre.*` of _read_header are claimed here (its own '
                       'post-conditions are C10-C12)')
    chk.trusted.append('A-io: io.BytesIO-like stream model (read/seek/write/'
                       'getvalue), differential-tested in setup_cmd')
    chk.trusted.append('A-bytes: bytes.find / slicing / len')
    # failed obligations -> replay the counter-model, else search
    failed = chk.failed_obligations()
    if failed:
        srch = None
        for oid, status, model, raw, ob in failed:
            w = concretize(model) if status == smt.SAT else None
            rep = None
            if w:
                rep = native('C17', {'op': 'replay', 'witness': w})
            if not (rep and not rep['ok']):
                if srch is None:
                    srch = native('C17', {'op': 'search'})
                if srch['witness']:
                    w = {k: srch['witness'][k]
                         for k in ('data', 'pos0', 'c', 'chunk_size')}
                    rep = native('C17', {'op': 'replay', 'witness': w})
            found = bool(rep and not rep['ok'])
            if not found:
                # whole-reader witness: records under two block sizes
                if 'b' not in chk.__dict__:
                    chk.b = native('C17', {'op': 'bounded', 'seed': chk.seed,
                                           'tier': chk.tier}, timeout=3000)
                if chk.b.get('failure'):
                    w = chk.b['failure']
                    rep = native('C17', {'op': 'replay', 'witness': w})
                    found = not rep['ok']
            if status == smt.SAT or found:
                chk.report_violation(oid, {
                    'function': reader_until.NAME, 'status': status,
                    'witness': w if found else None,
                    'native': rep if found else None,
                    'solver_output': raw[:3000],
                    'model': {k: repr(v) for k, v in model.items()},
                    'replay_cmd': './check C17 --replay <this file>'},
                    found_input=found,
                    what='%s is %s' % (oid, status))
    # bounded stand-in (labelled bounded; not counted as proved)
    if chk.violations:
        return chk.finish('proof', 'violation found by the deductive layer; '
                          'bounded stand-in skipped')
    b = native('C17', {'op': 'bounded', 'seed': chk.seed, 'tier': chk.tier},
               timeout=3000)
    chk.bounded.append({
        'what': 'writer-produced files x first-header padding x read-ahead '
                'block size; records compared with block size 96',
        'bound': 'padding 0..192, block 1..192 and 10^6 (quick: strided)',
        'evaluations': b['evaluations'],
        'distinct_nontrivial': b.get('distinct_nontrivial', 0),
        'sample': b.get('sample')})
    if b['failure']:
        chk.report_violation('bounded.records_equal', {
            'witness': b['failure'], 'function': 'DiffXReader (whole)'},
            found_input=True, what='records differ between block sizes')
    return chk.finish(
        'proof',
        'All obligations of DiffXReader._read_until (loop invariant init/'
        'preserve, variant, frame, post-conditions on both exit paths, '
        'exception freedom) generated from the real AST and discharged; '
        'unbounded in data, position and chunk size.  The bounded stand-in '
        'compares whole-reader records across block sizes and paddings.')


if __name__ == '__main__':
    sys.exit(main())
