"""C03 - the reader yields exactly what the specification says a well-formed
file contains; single defects are rejected with a position."""
import json
import sys

from props.common import Check, native
from pyvc import verify, smt
from contracts import reader_until, reader_header, reader_iter, errors_c
from contracts import reader_process as RP
from specs import sections as SP


def build(tag):
    eng = verify.Engine()
    kind, val = tag.split(':', 1)
    if kind == 'it':
        reader_iter.register(eng, val)
    elif kind == 'hdr':
        c = reader_header.register(eng, strict=True)
        from pyvc.verify import Const, NoneT
        alts = {'none': NoneT(), 'lf': Const(b'\n'), 'crlf': Const(b'\r\n')}
        c.params['self'].fields['_file_newlines'] = alts[val]
    elif kind == 'rc':
        RP.register_read(eng, with_short_read=False)
    elif kind == 'pc':
        RP.register_process(eng)
    elif kind == 'err':
        errors_c.register(eng)
    return eng


def main():
    chk = Check('C03')
    if chk.replay_file:
        rp = json.load(open(chk.replay_file))
        out = native('C03', {'op': 'replay', 'witness': rp['witness']})
        print(json.dumps(out, indent=1))
        return 1
    jobs = [(RP.RC, 'rc:-'), (RP.PC, 'pc:-'), (errors_c.NAME, 'err:-')]
    jobs += [(reader_header.NAME, 'hdr:' + v) for v in ('none', 'lf', 'crlf')]
    jobs += [(reader_iter.NAME, 'it:' + v) for v in [SP.START] + SP.NINE]
    chk.verify_parallel(build, jobs, timeout_s=40, procs=14)
    chk.trusted += [
        'per-step contracts: _read_header (blank lines skipped, newline '
        'style fixed by the first header, options = fold over the pairs, '
        'integers converted, line counter +1), iter_sections (which options '
        'are consulted, encoding scope, error line = header line), '
        '_read_content/_process_content (exactly `length` bytes, declared or '
        'first-line-detected newline, indentation stripped before decoding, '
        'must end in the newline, line counter + number of lines)',
        'the whole-file statement (records == specification reading) is the '
        'composition of the step contracts along the main loop; the '
        'composition itself is exercised by the bounded layer, not '
        'machine-checked as one formula',
        'A-json, A-codec']
    state = {}

    def run_bounded(n):
        return native('C03', {'op': 'bounded', 'seed': chk.seed, 'files': n},
                      timeout=3000)

    def find(oid, status, model):
        if 'r' not in state:
            state['r'] = run_bounded(200)
        w = state['r']['witness']
        return {'witness': w, 'native': w} if w else None
    chk.handle_failed(find, function='reader')
    if not chk.violations:
        if 'r' not in state or chk.tier != 'quick':
            state['r'] = run_bounded(400 if chk.tier == 'quick' else 12000)
        r = state['r']
        chk.bounded.append({
            'what': 'files built by an independent spec-derived generator '
                    '(options shuffled, optional options omitted, blank and '
                    'whitespace-only lines, CRLF header lines, compact / '
                    '2-space / canonical JSON, 6 codecs at every level, '
                    'indent 0/2/4, dos/unix) with the expected records known '
                    'by construction; and every single-defect mutation '
                    '(unsupported / missing version, missing length, unknown '
                    'line_endings, format other than json) with the line of '
                    'the offending section',
            'bound': '%d files + %d defect mutations' % (
                r['evaluations'] - r['defects'], r['defects']),
            'evaluations': r['evaluations'],
            'distinct_nontrivial': r['evaluations']})
        if r['witness']:
            chk.report_violation('bounded.foreign_files',
                                 {'witness': r['witness']}, True,
                                 what=r['witness']['error'][:300])
    return chk.finish(
        'other',
        'Every step of the reader is under contract and verified for all '
        'inputs (see trusted_base for what each contract states, incl. the '
        'DiffXParseError line = line of the offending section header, or the '
        'line after it for content errors).  The whole-file reading is the '
        'composition of those steps; it is exercised on independently '
        'generated foreign files and single-defect mutations (bounded).')


if __name__ == '__main__':
    sys.exit(main())
