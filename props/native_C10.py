"""Native side of C10: id sequences through the real reader."""
import io
import itertools
import json
import random
import sys

from pydiffx.errors import DiffXParseError
from pydiffx.reader import DiffXReader

from specs.sections import MAY_FOLLOW, NINE, START

NAMES = ['diffx', 'preamble', 'meta', 'change', 'file', 'diff']
ALL_IDS = ['.' * lv + n for lv in range(4) for n in NAMES]      # 24 ids
CONTENT = {'.preamble', '.meta', '..preamble', '..meta', '...meta', '...diff'}


def render(ids, blank_before=()):
    out = []
    for k, sid in enumerate(ids):
        if k in blank_before:
            out.append(b'\n')
        name = sid.lstrip('.')
        if name in ('preamble', 'meta', 'diff'):
            body = b'{}\n' if name == 'meta' else b'x\n'
            out.append(('#%s: length=%d\n' % (sid, len(body))).encode() + body)
        elif sid == 'diffx':
            out.append(b'#diffx: encoding=utf-8, version=1.0\n')
        else:
            out.append(('#%s:\n' % sid).encode())
    return b''.join(out)


def expected(ids):
    """(number of accepted sections, rejected?)"""
    last = START
    for k, sid in enumerate(ids):
        if sid not in MAY_FOLLOW[last]:
            return k, True
        last = sid
    return len(ids), False


def observe(data):
    n = 0
    try:
        for rec in DiffXReader(io.BytesIO(data)):
            n += 1
        return n, False, None
    except DiffXParseError:
        return n, True, None
    except Exception as e:  # noqa
        return n, True, '%s: %s' % (type(e).__name__, e)


def check_seq(ids, blank_before=()):
    data = render(ids, blank_before)
    exp = expected(ids)
    n, rej, other = observe(data)
    if other is not None or (n, rej) != exp:
        return {'ids': list(ids), 'blank_before': sorted(blank_before),
                'file': data.hex(), 'expected': list(exp),
                'observed': [n, rej, other]}
    return None


def legal_prefixes(maxlen):
    out = [[]]
    frontier = [[]]
    for _ in range(maxlen):
        nxt = []
        for p in frontier:
            last = p[-1] if p else START
            for sid in sorted(MAY_FOLLOW[last]):
                nxt.append(p + [sid])
        out += nxt
        frontier = nxt
    return out


def bounded(maxlen, seed, nrandom):
    evals = 0
    distinct = 0
    # every legal prefix up to maxlen-1, extended by each of the 24 ids
    for p in legal_prefixes(maxlen - 1):
        for sid in ALL_IDS:
            ids = p + [sid]
            evals += 1
            distinct += 1
            w = check_seq(ids)
            if w:
                return evals, distinct, w
            if p:
                evals += 1
                w = check_seq(ids, blank_before={len(ids) - 1})
                if w:
                    return evals, distinct, w
    rng = random.Random(seed)
    for _ in range(nrandom):
        ln = rng.randrange(2, 10)
        ids = []
        last = START
        for k in range(ln):
            if rng.random() < .8 and MAY_FOLLOW[last]:
                sid = rng.choice(sorted(MAY_FOLLOW[last]))
            else:
                sid = rng.choice(ALL_IDS)
            ids.append(sid)
            if sid not in MAY_FOLLOW[last]:
                break
            last = sid
        blanks = set(k for k in range(1, len(ids)) if rng.random() < .2)
        evals += 1
        w = check_seq(ids, blanks)
        if w:
            return evals, distinct, w
    return evals, distinct, None


def main():
    req = json.load(sys.stdin)
    if req['op'] == 'replay':
        w = req['witness']
        r = check_seq(w['ids'], set(w.get('blank_before', [])))
        out = {'ok': r is None, 'detail': r}
    else:
        e, d, w = bounded(req['maxlen'], req['seed'], req['random'])
        out = {'evaluations': e, 'distinct_nontrivial': d, 'witness': w}
    json.dump(out, sys.stdout)


if __name__ == '__main__':
    main()
