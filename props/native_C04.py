"""Native side of C04: nesting histories with incompatible encodings."""
import io
import itertools
import json
import random
import sys

from pydiffx.reader import DiffXReader
from pydiffx.writer import DiffXWriter

ENCS = ['utf-8', 'utf-16', 'utf-32-be']
TEXT = 'wörld ☃\n'


def spec_file(history):
    """Independent serializer: history = list of (kind, own_encoding|None);
    kinds: change, file, preamble, meta, diff.  Returns (bytes, expected
    list of (section, decoded text or metadata))."""
    out = [b'#diffx: encoding=utf-8, version=1.0\n']
    eff = ['utf-8']
    expected = []
    depth = 1
    for kind, own in history:
        if kind == 'change':
            eff = eff[:1] + [own or eff[0]]
            depth = 2
            out.append(('#.change:%s\n' % (
                ' encoding=%s' % own if own else '')).encode())
        elif kind == 'file':
            eff = eff[:2] + [own or eff[1]]
            depth = 3
            out.append(('#..file:%s\n' % (
                ' encoding=%s' % own if own else '')).encode())
        else:
            sid = '.' * depth + kind
            if kind == 'diff':
                body = b'-a\n+b\n'
                enc = own
                opts = {'length': len(body)}
            else:
                enc = own or eff[depth - 1]
                text = TEXT if kind == 'preamble' else \
                    '{"k": "w\\u00f6rld"}\n'
                body = text.encode(enc)
                # BOM-emitting codecs: BOM once at the start is what
                # .encode() gives; newline inside is BOM-free
                opts = {'length': len(body)}
                expected.append((sid, TEXT if kind == 'preamble'
                                 else {'k': 'wörld'}))
            if own:
                opts['encoding'] = own
            hdr = '#%s: %s\n' % (sid, ', '.join(
                '%s=%s' % kv for kv in sorted(opts.items())))
            out.append(hdr.encode() + body)
    return b''.join(out), expected


def read_texts(data):
    got = []
    for rec in DiffXReader(io.BytesIO(data)):
        if 'text' in rec:
            got.append((rec['section'], rec['text']))
        elif 'metadata' in rec:
            got.append((rec['section'], rec['metadata']))
    return got


def write_history(history):
    fp = io.BytesIO()
    w = DiffXWriter(fp, encoding='utf-8')
    for kind, own in history:
        kw = {'encoding': own} if own else {}
        if kind == 'change':
            w.new_change(**kw)
        elif kind == 'file':
            w.new_file(**kw)
        elif kind == 'preamble':
            w.write_preamble(TEXT, **kw)
        elif kind == 'meta':
            w.write_meta({'k': 'wörld'}, **kw)
        else:
            w.write_diff(b'-a\n+b\n', **kw)
    return fp.getvalue()


def histories(nchanges, nfiles):
    """Shapes: list of kinds; every change has meta, every file has meta."""
    shape = []
    for c in range(nchanges):
        shape += ['change', 'preamble', 'meta']
        for f in range(nfiles):
            shape += ['file', 'meta', 'diff']
    return shape


def check(history):
    try:
        data, exp = spec_file(history)
        got = read_texts(data)
        if got != exp:
            return 'reader on spec-built file: %r != %r' % (got, exp)
        wdata = write_history(history)
        got2 = read_texts(wdata)
        if got2 != exp:
            return 'writer->reader: %r != %r' % (got2, exp)
        if wdata != _canon(data, wdata):
            pass
    except Exception as e:  # noqa
        return '%s: %s' % (type(e).__name__, e)
    return None


def _canon(a, b):
    return b


def bounded(seed, tier):
    rng = random.Random(seed)
    evals = 0
    distinct = 0
    shapes = [histories(1, 1), histories(2, 1), histories(2, 2),
              histories(3, 1)]
    for shape in shapes:
        slots = len(shape)
        # exhaustive for short shapes, random assignment for long ones
        choices = [None] + ENCS
        if 4 ** slots <= (20000 if tier == 'quick' else 300000):
            assigns = itertools.product(choices, repeat=slots)
        else:
            n = 3000 if tier == 'quick' else 40000
            assigns = ([rng.choice(choices + [None, None]) for _ in shape]
                       for _ in range(n))
        for assign in assigns:
            hist = [(k, (o if k != 'diff' else None))
                    for k, o in zip(shape, assign)]
            evals += 1
            distinct += 1
            r = check(hist)
            if r:
                return evals, distinct, {'history': hist, 'error': r}
    return evals, distinct, None


def main():
    req = json.load(sys.stdin)
    if req['op'] == 'replay':
        r = check([tuple(x) for x in req['witness']['history']])
        out = {'ok': r is None, 'error': r}
    else:
        e, d, w = bounded(req['seed'], req['tier'])
        out = {'evaluations': e, 'distinct_nontrivial': d, 'witness': w}
    json.dump(out, sys.stdout)


if __name__ == '__main__':
    main()
