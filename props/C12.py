"""C12 - unknown header options are carried through and change nothing else."""
import json
import sys

from props.common import Check, native
from pyvc import verify, smt
from contracts import (reader_header, reader_iter, lemmas_opts,
                       frame_options, lemmas_split)
from specs import sections as SP


def build(tag):
    eng = verify.Engine()
    kind, val = tag.split(':', 1)
    if kind == 'hdr':
        c = reader_header.register(eng, strict=True)
        from pyvc.verify import Const, NoneT
        alts = {'none': NoneT(), 'lf': Const(b'\n'), 'crlf': Const(b'\r\n')}
        c.params['self'].fields['_file_newlines'] = alts[val]
    else:
        reader_iter.register(eng, val)
        eng.post_verify = frame_options.post_verify
    return eng


def main():
    chk = Check('C12')
    if chk.replay_file:
        rp = json.load(open(chk.replay_file))
        out = native('C12', {'op': 'replay', 'witness': rp['witness']})
        print(json.dumps(out, indent=1))
        return 0 if out['ok'] else 1
    for oid, asserts, text in lemmas_opts.lemmas():
        chk.add_smt_obligation('lemma.' + oid, asserts, describe=text)
    # an extra valid pair keeps a header inside the grammar (regex closure)
    for oid, asserts, text in lemmas_split.join_factors(
            'PAIR', reader_header.PAIR):
        chk.add_smt_obligation('lemma.' + oid, asserts, describe=text)
    jobs = [(reader_header.NAME, 'hdr:' + v) for v in ('none', 'lf', 'crlf')]
    jobs += [(reader_iter.NAME, 'it:' + v) for v in [SP.START] + SP.NINE]
    chk.verify_parallel(build, jobs, timeout_s=40, procs=13)
    chk.trusted += [
        'reported options == ParseOpts(pairs) is proved in _read_header; '
        'the insertion lemma is about that fold (arbitrary key/value '
        'functions of a pair)',
        'frame obligation is checked on the generated verification '
        'conditions of iter_sections (every path): the options mapping '
        'occurs only under a select with one of the six known keys',
        '_read_content is called with values read at known keys only '
        '(its own contract: C07/C08)',
        'position effects of a longer header are C17\'s subject']
    state = {}

    def find(oid, status, model):
        if 'r' not in state:
            state['r'] = native('C12', {'op': 'bounded', 'seed': chk.seed,
                                        'files': 40, 'tries': 25},
                                timeout=1800)
        w = state['r']['witness']
        return {'witness': w, 'native': w} if w else None
    chk.handle_failed(find, function='reader')
    if not chk.violations:
        if 'r' not in state or chk.tier != 'quick':
            q = chk.tier == 'quick'
            state['r'] = native('C12', {
                'op': 'bounded', 'seed': chk.seed,
                'files': 40 if q else 600, 'tries': 25 if q else 60},
                timeout=3000)
        r = state['r']
        chk.bounded.append({
            'what': 'writer-produced files x random header x 1-3 unknown '
                    'pairs x insertion position; records compared with the '
                    'originals plus the added keys (integers converted by an '
                    'independent rule)',
            'bound': '%d files x %d insertions' % (
                (40, 25) if chk.tier == 'quick' else (600, 60)),
            'evaluations': r['evaluations'],
            'distinct_nontrivial': r['distinct_nontrivial']})
        if r['witness']:
            chk.report_violation('bounded.unknown_options',
                                 {'witness': r['witness']}, True,
                                 what=r['witness']['error'])
    return chk.finish(
        'proof',
        'Parse side: _read_header reports options == ParseOpts(pairs) (loop '
        'invariant); lemma opts_insert: inserting a pair with a new key at '
        'any position changes the fold only at that key.  Use side: frame '
        'obligation over all VCs of iter_sections - behaviour depends on the '
        'options only through the six known keys, and the record carries the '
        'mapping itself.')


if __name__ == '__main__':
    sys.exit(main())
