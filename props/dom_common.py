"""Shared driver for the scenario-based object-model checks."""
from pyvc import verify, smt
from contracts import dom_scenarios as DS


def run_scenarios(chk, scenarios, timeout_s=20):
    outs = DS.run(scenarios, procs=14)
    allobs = []
    for o in outs:
        if o['error']:
            chk.errors.append('%s: engine error %s' % (o['name'],
                                                       o['error'][-600:]))
            continue
        for u in o['undecided']:
            chk.undecided.append('%s: %s' % (o['name'], u))
        real = [r for r in o['obligations'] if r.kind != 'canary']
        can = [r for r in o['obligations'] if r.kind == 'canary']
        if not o['undecided'] and not can:
            chk.errors.append('%s: no path reaches the end' % o['name'])
        allobs += o['obligations']
    real = [r for r in allobs if r.kind != 'canary']
    verify.discharge(real, timeout_s=timeout_s, jobs=12)
    sat, vac = verify.check_canaries(allobs, jobs=12)
    chk.canaries_sat += sat
    chk.obligations.extend(real)
    for o in real:
        if o.result is not None:
            chk.solver_time += o.result.time_s
            chk.backends[o.result.solver] = chk.backends.get(
                o.result.solver, 0) + 1
    chk.samples.append({'scenario': scenarios[0][0],
                        'driver': scenarios[0][1][-600:],
                        'clauses': [c for c in scenarios[0][2]]})
    return outs


DOM_FUNCTIONS = [
    'pydiffx.dom.objects.BaseDiffXSection.__init__',
    'pydiffx.dom.objects.BaseDiffXSection.__eq__',
    'pydiffx.dom.objects.BaseDiffXContainerSection.__eq__',
    'pydiffx.dom.objects.BaseDiffXContentSection.__init__',
    'pydiffx.dom.objects.BaseDiffXContentSection.content',
    'pydiffx.dom.objects.BaseDiffXContentSection.__eq__',
    'pydiffx.dom.objects.DiffX.add_change',
    'pydiffx.dom.objects.DiffX._setup_state',
    'pydiffx.dom.objects.DiffX.subsections',
    'pydiffx.dom.objects.DiffXChangeSection.add_file',
    'pydiffx.dom.objects.DiffXChangeSection._setup_state',
    'pydiffx.dom.objects.DiffXFileSection._setup_state',
    'pydiffx.dom.properties.OptionProperty.__get__',
    'pydiffx.dom.properties.OptionProperty.__set__',
    'pydiffx.dom.properties.SubsectionAttrProperty.__get__',
    'pydiffx.dom.properties.SubsectionAttrProperty.__set__',
]


def describe_functions(chk, names):
    from pyvc import extract
    for n in names:
        try:
            for fi in extract.find_all_defs(n):
                chk.functions.append(fi.describe())
        except KeyError:
            chk.undecided.append('%s: function not found' % n)
