"""C19 - typed attributes validate atomically; equality is structural."""
import json
import sys

from props.common import Check, native
from props import dom_common
from contracts import dom_scenarios as DS
from pyvc import smt


def main():
    chk = Check('C19')
    if chk.replay_file:
        print(open(chk.replay_file).read()[:3000])
        return 1
    dom_common.describe_functions(chk, dom_common.DOM_FUNCTIONS)
    scs = DS.c19_scenarios(chk.tier)
    dom_common.run_scenarios(chk, scs)
    chk.trusted += [
        'scenario verification: the real constructors, descriptors, setters '
        'and __eq__ methods are executed symbolically (inlined ASTs) on '
        'trees of a FIXED SHAPE (1 change, 1 file, plus a second tree) with '
        'symbolic values: unbounded in values, bounded in shape',
        'typed-attribute table (type and choices per attribute) is the '
        'specification side (contracts/dom_scenarios.py)',
        'Python == on option/metadata values is modelled as equality of '
        'JSON-like scalars (1 == True is NOT modelled - that is the known '
        'finding, seen by the bounded layer only)',
        'slot names that are not typed attributes (changes, files, options, '
        '...) are accepted by the constructors on the pinned tree; the '
        'scenarios only require rejection of names that are no attribute']
    state = {}

    def find(oid, status, model):
        if 'r' not in state:
            state['r'] = native('dom', {'op': 'c19', 'seed': chk.seed,
                                        'n': 600}, timeout=1800)
        w = state['r']['witness']
        return {'witness': w, 'native': w} if w else None
    chk.handle_failed(find, function='pydiffx.dom')
    # known finding: numeric equality vs JSON type
    from props.common import VENV_PY
    kn = native('dom_known', {'op': 'c19_numeric'})
    if kn['reproduces']:
        k = chk.match_known('bounded.eq_congruent_with_bytes',
                            'python-numeric-equality')
        if k:
            chk.known_hits.append((k, 'bounded.eq_congruent_with_bytes'))
        else:
            chk.report_violation('bounded.eq_congruent_with_bytes',
                                 {'witness': kn}, True,
                                 witness_class='python-numeric-equality',
                                 what='equal trees serialise differently')
    if not chk.violations:
        if 'r' not in state or chk.tier != 'quick':
            state['r'] = native('dom', {
                'op': 'c19', 'seed': chk.seed,
                'n': 1200 if chk.tier == 'quick' else 40000}, timeout=3000)
        r = state['r']
        chk.bounded.append({
            'what': 'random trees (1-3 changes x 1-3 files): every typed '
                    'attribute (own and forwarded) x 22 candidate values of '
                    'right and wrong type / choice with snapshots of the '
                    'tree and of another tree around the assignment; '
                    'unknown constructor attributes; == / != versus '
                    'snapshot equality and to_bytes equality; single-field '
                    'perturbations',
            'bound': '%d evaluations' % r['evaluations'],
            'evaluations': r['evaluations'],
            'distinct_nontrivial': r.get('distinct_nontrivial', 0)})
        if r['witness']:
            chk.report_violation('bounded.typed_attributes',
                                 {'witness': r['witness']}, True,
                                 what=r['witness']['error'])
    return chk.finish(
        'other',
        'For every typed attribute of every container kind (own and '
        'forwarded, 27 attribute/target pairs, symbolic candidate value of '
        'any scalar type, and a dict): accepted => declared type and choice '
        'and the value is stored; rejected => the whole tree and a second '
        'tree are unchanged; every valid value is accepted.  Equality of two '
        'trees of equal shape <=> equality of their snapshots; trees of '
        'different shape are unequal.  Unknown constructor attributes raise '
        'DiffXUnknownOptionError.  KNOWN FINDING: 1 == True.')


if __name__ == '__main__':
    sys.exit(main())
