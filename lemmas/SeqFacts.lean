/-
  Sequence facts B4 / B5 used as axioms by the C16 (split_lines) verification
  conditions (contracts/text_split.py lemma_instances, pyvc/lists.py l_pop /
  l_append), proved here by induction and checked by the Lean 4 kernel.
  No Mathlib, no axioms, no sorry.

  Correspondence with the SMT side (by inspection, stated in DESIGN 0.4):
    ConcatAll(S)   = concatAll S        (b''.join(S))
    Join(nl, S)    = join nl S          (nl.join(S): Python's bytes.join)
    map(+nl, S)    = S.map (· ++ nl)    ([x + nl for x in S])
  Bytes are an arbitrary type α: the facts do not depend on the alphabet.
-/

def concatAll {α : Type} : List (List α) → List α
  | [] => []
  | x :: r => x ++ concatAll r

def join {α : Type} (nl : List α) : List (List α) → List α
  | [] => []
  | [x] => x
  | x :: y :: r => x ++ nl ++ join nl (y :: r)

/-- B4: concatenating every piece followed by the newline equals the join of
    the pieces followed by one newline (for a non-empty list of pieces). -/
theorem B4 {α : Type} (nl : List α) :
    ∀ S : List (List α), S ≠ [] →
      concatAll (S.map (· ++ nl)) = join nl S ++ nl
  | [], h => absurd rfl h
  | [x], _ => by simp [concatAll, join]
  | x :: y :: r, _ => by
      have ih := B4 nl (y :: r) (by simp)
      simp only [List.map, concatAll, join] at ih ⊢
      rw [ih]
      simp [List.append_assoc]

/-- B5: snoc unfolding of ConcatAll (used by list pop / append). -/
theorem B5 {α : Type} (x : List α) :
    ∀ S : List (List α), concatAll (S ++ [x]) = concatAll S ++ x
  | [] => by simp [concatAll]
  | y :: r => by
      have ih := B5 x r
      simp [concatAll, ih, List.append_assoc]

/-- join then split identity direction used with B4: losslessness of the
    kept-ends mode follows from B4 once Split is the inverse of Join (B3,
    still an assumed fact about bytes.split). -/
theorem concatAll_singleton {α : Type} (x : List α) : concatAll [x] = x := by
  simp [concatAll]

#print axioms B4
#print axioms B5
