"""Scenarios for the object-model properties (C18, C19, C13, C05/C06).

A scenario is a short driver of the real public API executed symbolically
through the real ASTs (object model, descriptors, DOM writer and streaming
writer are inlined; DiffXWriter._prepare_content, split_lines etc. by
contract) with symbolic VALUES on a fixed SHAPE, followed by clauses that
become obligations.  Unbounded in values, bounded in shape."""
from pyvc import verify, scenario
from pyvc.values import VFunc, VBool, VRef, VNone, box, DictCell, Unsupported

MOD = 'pydiffx.dom.objects'

# --- specification-side table of the typed attributes (C19) ---------------
STR, INT = 'str', 'int'
OPTION_ATTRS = {
    # attribute suffix -> (python type, allowed choices or None)
    'encoding': (STR, None),
    'version': (STR, ('1.0',)),
    'indent': (INT, None),
    'line_endings': (STR, ('dos', 'unix')),
    'mimetype': (STR, ('text/markdown', 'text/plain')),
    'format': (STR, ('json',)),
    'type': (STR, ('binary', 'text')),
}
CONTENT_TYPES = {'preamble': 'str', 'meta': 'dict', 'diff': 'bytes'}
TARGET_ATTRS = {
    'd': ['encoding', 'version', 'preamble', 'preamble_encoding',
          'preamble_indent', 'preamble_line_endings', 'preamble_mimetype',
          'meta', 'meta_encoding', 'meta_format'],
    'c': ['encoding', 'preamble', 'preamble_encoding', 'preamble_indent',
          'preamble_line_endings', 'preamble_mimetype', 'meta',
          'meta_encoding', 'meta_format'],
    'f': ['encoding', 'meta', 'meta_encoding', 'meta_format', 'diff',
          'diff_encoding', 'diff_line_endings', 'diff_type'],
}


def attr_kind(attr):
    if attr in CONTENT_TYPES:
        return ('content', CONTENT_TYPES[attr], None)
    suffix = attr.split('_', 1)[1] if '_' in attr and \
        attr.split('_', 1)[0] in ('preamble', 'meta', 'diff') else attr
    t, ch = OPTION_ATTRS[suffix]
    return ('option', t, ch)


WRITER_API = ('__init__', 'new_change', 'new_file', 'write_preamble',
              'write_meta', 'write_diff')


def make_engine(stub_writer=False, stats_stubs=False, trace_writer=False,
                list_reader=False, hunks=False):
    from contracts import writer as W, text_utils as T
    eng = verify.Engine()
    eng.inline_all_repo = True
    W.register(eng)
    for k in list(eng.contracts):
        if k.startswith(W.QN) and not k.endswith('_prepare_content'):
            del eng.contracts[k]
    if stub_writer:
        # The streaming writer seen from the object-model writer: any
        # outcome (return or any exception), no effect on the arguments.
        # The "no effect on the arguments" half is an obligation of the
        # real methods (contracts/writer.py: arg_unchanged on write_meta;
        # every other argument is an immutable scalar or a ** copy).
        for m in WRITER_API:
            eng.add(verify.Contract(W.QN + m, params={},
                                    raises={Exception: None}))
    scenario.install(eng)
    if trace_writer:
        register_trace_writer(eng)
    if list_reader:
        # the streaming reader seen from the object-model reader: an
        # iterable of records (what the records are is C01/C03/C10-C12)
        def f_list_reader(it, a, k):
            recs = a[0]
            return VFunc(lambda it2, a2, k2: recs, 'reader_over_list')
        eng.spec_funcs['LIST_READER'] = VFunc(f_list_reader, 'LIST_READER')
    if stats_stubs:
        register_stats_stubs(eng)
        import z3 as _z3
        from pyvc.values import VBox as _VBox, Val as _Val

        def _choice(name, alts):
            def f(it, a, k):
                v = it.ctx.fresh(name, _Val)
                it.ctx.assume(_z3.Or([v == x for x in alts]))
                return _VBox(v)
            return VFunc(f, name)
        S_ = lambda x: _Val.StrV(_z3.StringVal(x))
        eng.spec_funcs['SYM_TYPE'] = _choice(
            'SYM_TYPE', [_Val.NoneV, S_('text'), S_('binary')])
        eng.spec_funcs['SYM_LE'] = _choice(
            'SYM_LE', [_Val.NoneV, S_('unix'), S_('dos')])

        def f_enc(it, a, k):
            v = it.ctx.fresh('SYM_ENC', _Val)
            it.ctx.assume(_z3.Or(v == _Val.NoneV, _Val.is_StrV(v)))
            return _VBox(v)
        eng.spec_funcs['SYM_ENC'] = VFunc(f_enc, 'SYM_ENC')
    eng.spec_funcs['box_is'] = VFunc(
        lambda it, a, k: VBool(box(a[0]) == box(a[1])), 'box_is')

    def f_same_obj(it, a, k):
        x, y = a
        if isinstance(x, VRef) and isinstance(y, VRef):
            return VBool(x.ref == y.ref)
        try:
            return VBool(box(x) == box(y))
        except Unsupported:
            return VBool(False)
    eng.spec_funcs['same_value'] = VFunc(f_same_obj, 'same_value')
    return eng


TREE = '''
d = DiffX()
c = d.add_change()
f = c.add_file()
d2 = DiffX()
c2 = d2.add_change()
'''


def c19_assignment(target, attr, value_kind):
    kind, typ, choices = attr_kind(attr)
    val = {'box': 'SYM_BOX()', 'dict': "{'k': SYM_BOX()}"}[value_kind]
    src = TREE + '''
v = %s
before = SNAP(d, d2)
ok = True
try:
    %s.%s = v
except (DiffXOptionValueError, TypeError):
    ok = False
after = SNAP(d, d2)
got = %s.%s
''' % (val, target, attr, target, attr)
    tp = {'str': 'isinstance(v, str)', 'int': 'isinstance(v, int)',
          'dict': 'isinstance(v, dict)',
          'bytes': 'isinstance(v, bytes)'}[typ]
    valid = tp
    clauses = [('typed', 'implies(ok, %s)' % tp),
               ('stored', 'implies(ok, same_value(got, v))'),
               ('atomic_on_reject', 'implies(not ok, SAME(before, after))')]
    if choices:
        clauses.append(('choice', 'implies(ok, v in %r)' % (choices,)))
        valid = '%s and v in %r' % (tp, choices)
    clauses.append(('accepts_valid', 'implies(%s, ok)' % valid))
    name = 'c19.set.%s.%s.%s' % (target, attr, value_kind)
    return name, src, clauses, ()


def c19_unknown_ctor(clsexpr, name_, valid):
    src = '''
d = DiffX()
c = d.add_change()
raised = False
try:
    x = %s(**{%r: SYM_BOX()})
except DiffXUnknownOptionError:
    raised = True
except (DiffXOptionValueError, TypeError):
    raised = False
''' % (clsexpr, name_)
    clauses = [('unknown_rejected', 'raised == %s' % (not valid))]
    return ('c19.ctor.%s.%s' % (clsexpr.split('(')[0].replace('.', '_'),
                                name_), src, clauses, ())


EQ_BUILD = '''
def_a = None
'''


def build_tree(var, nchanges, nfiles):
    lines = ['%s = DiffX()' % var,
             "%s.preamble_section.options['indent'] = SYM_BOX()" % var,
             '%s.preamble = SYM_STR()' % var,
             "%s.meta = {'k': SYM_BOX()}" % var]
    for ci in range(nchanges):
        c = '%s_c%d' % (var, ci)
        lines += ['%s = %s.add_change()' % (c, var),
                  "%s.options['encoding'] = SYM_BOX()" % c,
                  "%s.meta = {'id': SYM_BOX()}" % c]
        for fi in range(nfiles):
            f = '%s_f%d' % (c, fi)
            lines += ['%s = %s.add_file()' % (f, c),
                      "%s.meta = {'path': SYM_BOX()}" % f,
                      '%s.diff = SYM_BYTES()' % f,
                      "%s.diff_section.options['type'] = SYM_BOX()" % f]
    return '\n'.join(lines) + '\n'


def c19_equality(shape_a, shape_b):
    src = build_tree('a', *shape_a) + build_tree('b', *shape_b) + '''
e = (a == b)
ne = (a != b)
'''
    if shape_a == shape_b:
        clauses = [('eq_iff_structural', 'iff(e, SAME(SNAP(a), SNAP(b)))')]
    else:
        clauses = [('different_shape_unequal', 'not e')]
    name = 'c19.eq.%dx%d_vs_%dx%d' % (shape_a + shape_b)
    return name, src, clauses, ()


def c19_scenarios(tier):
    out = []
    for target, attrs in TARGET_ATTRS.items():
        for attr in attrs:
            out.append(c19_assignment(target, attr, 'box'))
            if attr in CONTENT_TYPES:
                out.append(c19_assignment(target, attr, 'dict'))
    for name_, valid in (('bogus', False), ('files', False),
                         ('options', True), ('encoding', True),
                         ('subsections', False), ('meta_format', True)):
        out.append(c19_unknown_ctor('DiffX', name_, valid))
    out.append(c19_unknown_ctor('d.add_change', 'bogus', False))
    out.append(c19_unknown_ctor('c.add_file', 'diff_bogus', False))
    shapes = [((1, 1), (1, 1)), ((2, 1), (1, 1)), ((1, 2), (1, 1)),
              ((1, 1), (2, 1)), ((0, 0), (1, 0))]
    for a, b in shapes:
        out.append(c19_equality(a, b))
    return out


# --- C18 -----------------------------------------------------------------
def c18_scenarios(tier):
    out = []
    out.append(('c18.fresh_defaults', '''
d1 = DiffX()
d2 = DiffX()
before = SNAP(d2)
d1.meta['x'] = SYM_BOX()
d1.options['encoding'] = SYM_BOX()
d1.preamble_section.options['indent'] = SYM_BOX()
d1.meta_section.options['format'] = SYM_BOX()
ch = d1.add_change()
ch.meta['y'] = SYM_BOX()
after = SNAP(d2)
d3 = DiffX()
fresh = SNAP(d3)
pristine = SNAP(DiffX())
''', [('other_tree_unchanged', 'SAME(before, after)'),
      ('later_tree_has_pristine_defaults', 'SAME(fresh, pristine)'),
      ('new_tree_meta_empty', 'len(d3.meta) == 0')], ()))
    out.append(('c18.empty_content_not_shared', '''
d1 = DiffX()
d1.meta = {}
d2 = DiffX()
d2.meta = {}
c = d1.add_change(meta={})
before = SNAP(d2, c)
d1.meta['x'] = SYM_BOX()
d1.meta_section.options['format'] = SYM_BOX()
after = SNAP(d2, c)
d3 = DiffX()
fresh = SNAP(d3)
pristine = SNAP(DiffX())
''', [('emptied_sections_do_not_share', 'SAME(before, after)'),
      ('defaults_not_polluted', 'len(d3.meta) == 0 and len(c.meta) == 0'),
      ('later_tree_pristine', 'SAME(fresh, pristine)')], ()))
    out.append(('c18.siblings', '''
d = DiffX()
c1 = d.add_change()
c2 = d.add_change()
f1 = c1.add_file()
f2 = c1.add_file()
before = SNAP(c2, f2)
c1.meta['a'] = SYM_BOX()
c1.options['encoding'] = SYM_BOX()
c1.preamble_section.options['indent'] = SYM_BOX()
f1.meta['b'] = SYM_BOX()
f1.diff_section.options['type'] = SYM_BOX()
f1.meta_section.options['format'] = SYM_BOX()
after = SNAP(c2, f2)
''', [('siblings_unchanged', 'SAME(before, after)')], ()))
    build = build_tree('a', 1, 1) + build_tree('b', 1, 1)
    out.append(('c18.observers.eq_repr', build + '''
before = SNAP(a, b)
e = (a == b)
r = repr(a)
r2 = repr(a_c0)
after = SNAP(a, b)
''', [('observers_pure', 'SAME(before, after)')], ()))
    out.append(('c18.observers.to_bytes', build_tree('a', 1, 1) + '''
before = SNAP(a)
bs = a.to_bytes()
after = SNAP(a)
''', [('to_bytes_pure', 'SAME(before, after)'),
      ('on_raise.to_bytes_pure_on_error', 'SAME(before, SNAP(a))')],
        (Exception,), {'stub_writer': True}))
    out.append(('c18.writer_object_reuse',
                build_tree('a', 1, 1) + build_tree('b', 1, 1) + '''
w = DiffXDOMWriter()
before = SNAP(a, b)
wbefore = SNAP(w)
w.write_stream(a, io.BytesIO())
mid = SNAP(a, b)
w.write_stream(b, io.BytesIO())
after = SNAP(a, b)
''', [('trees_unchanged_1', 'SAME(before, mid)'),
      ('trees_unchanged_2', 'SAME(before, after)'),
      ('writer_keeps_no_state', 'SAME(wbefore, SNAP(w))')],
        (Exception,), {'stub_writer': True}))
    out.append(('c18.add_with_arguments', '''
d = DiffX(meta={'k': SYM_BOX()})
c1 = d.add_change(meta={'a': SYM_BOX()}, preamble=SYM_STR())
c2 = d.add_change(meta={'a': SYM_BOX()})
f1 = c2.add_file(meta={'p': SYM_BOX()}, diff=SYM_BYTES())
f2 = c2.add_file(meta={'p': SYM_BOX()})
before = SNAP(d.meta_section, d.preamble_section, c1, f2)
c2.meta['z'] = SYM_BOX()
c2.preamble = SYM_STR()
c2.preamble_indent = SYM_INT()
f1.meta['z'] = SYM_BOX()
f1.diff = SYM_BYTES()
f1.diff_type = 'binary'
after = SNAP(d.meta_section, d.preamble_section, c1, f2)
''', [('others_unchanged', 'SAME(before, after)')], ()))
    return out


def run(scenarios, procs=12):
    """Verify scenarios in child processes; returns picklable records."""
    import multiprocessing as mp
    ctxm = mp.get_context('fork')
    with ctxm.Pool(min(procs, max(1, len(scenarios)))) as pool:
        return pool.map(_run_one, scenarios)


def _run_one(sc):
    import traceback
    from props.common import ObRec
    name, src, clauses, allowed = sc[:4]
    try:
        eng = make_engine(**(sc[4] if len(sc) > 4 else {}))
        kw = {}
        if len(sc) > 4 and sc[4].get('hunks'):
            kw['extra_modules'] = ('pydiffx.errors', 'io',
                                   'pydiffx.utils.unified_diffs')
        v = scenario.run_scenario(eng, name, MOD, src, clauses,
                                  allowed=allowed, max_paths=6000, **kw)
        recs = [ObRec(o) for o in v.obligations]
        return {'name': name, 'undecided': v.undecided, 'paths': v.paths,
                'exit_kinds': v.exit_kinds, 'obligations': recs,
                'error': None}
    except Exception:
        return {'name': name, 'undecided': [], 'paths': 0, 'exit_kinds': {},
                'obligations': [], 'error': traceback.format_exc()[-1500:]}


# --- C13 -----------------------------------------------------------------
# The text utilities and the hunk parser seen from generate_stats: pure
# functions of their arguments (uninterpreted), any exception possible.
# What the functions compute is the business of C14 / C16 / C02; here the
# obligations are (1) which arguments they are called with, (2) what is done
# with their results.
def _stats_ufs():
    import z3
    from pyvc.values import Val, SeqString
    St = z3.StringSort()
    return dict(
        NLFor=z3.Function('C13_NLFor', Val, Val, St),
        GuessLE=z3.Function('C13_GuessLE', St, Val, St),
        GuessNL=z3.Function('C13_GuessNL', St, Val, St),
        SplitL=z3.Function('C13_SplitLines', St, St, SeqString),
        TotIns=z3.Function('C13_TotalInserts', SeqString, z3.IntSort()),
        TotDel=z3.Function('C13_TotalDeletes', SeqString, z3.IntSort()),
        Fail=z3.Function('C13_HunkParserRaises', SeqString, z3.BoolSort()),
        NLFails=z3.Function('C13_NLForRaises', Val, Val, z3.BoolSort()),
        GuessFails=z3.Function('C13_GuessRaises', St, Val, z3.BoolSort()),
        SplitFails=z3.Function('C13_SplitRaises', St, St, z3.BoolSort()))


def register_stats_stubs(eng):
    import z3
    from pyvc.values import (VStr, VInt, VTuple, VNone, VBool, VExc,
                             SeqCell, Val)
    from pyvc.symex import PyRaise, truth
    U = _stats_ufs()

    def boxed(v):
        return box(v) if v is not None else Val.NoneV

    def may_raise(it, cond):
        # deterministic: raises exactly when the (uninterpreted) predicate
        # of the arguments holds
        if it.ctx.branch(cond):
            raise PyRaise(VExc(Exception, [], {}))

    def nl_effect(it, b):
        may_raise(it, U['NLFails'](boxed(b['line_endings']),
                                   boxed(b.get('encoding'))))
        return VStr(U['NLFor'](boxed(b['line_endings']),
                               boxed(b.get('encoding'))), True)

    def guess_effect(it, b):
        t = b['text']
        if not isinstance(t, VStr):
            raise Unsupported('guess_line_endings on %r' % (t,))
        e = boxed(b.get('encoding'))
        may_raise(it, U['GuessFails'](t.e, e))
        return VTuple([VStr(U['GuessLE'](t.e, e), False),
                       VStr(U['GuessNL'](t.e, e), True)])

    def split_effect(it, b):
        d, nl = b['data'], b['newline']
        if not (isinstance(d, VStr) and isinstance(nl, VStr)):
            raise Unsupported('split_lines arguments')
        ke = b.get('keep_ends')
        it.ctx.oblige('split_lines.keep_ends_off',
                      z3.Not(truth(it.ctx, ke)) if ke is not None
                      else z3.BoolVal(True), kind='call-pre')
        may_raise(it, U['SplitFails'](d.e, nl.e))
        return it.ctx.alloc(SeqCell(U['SplitL'](d.e, nl.e), 'bytes'))

    def hunks_effect(it, b):
        ctx = it.ctx
        c = ctx.cell(b['lines'])
        if not isinstance(c, SeqCell):
            raise Unsupported('hunk parser argument')
        ig = b.get('ignore_garbage')
        ctx.oblige('hunk_parser.ignore_garbage_on',
                   truth(ctx, ig) if ig is not None else z3.BoolVal(False),
                   kind='call-pre')
        if ctx.branch(U['Fail'](c.e)):
            raise PyRaise(VExc(Exception, [], {}))
        ctx.assume(U['TotIns'](c.e) >= 0)
        ctx.assume(U['TotDel'](c.e) >= 0)
        d = DictCell()
        d.items['total_inserts'] = VInt(U['TotIns'](c.e))
        d.items['total_deletes'] = VInt(U['TotDel'](c.e))
        d.items['hunks'] = VNone
        return ctx.alloc(d)
    T = 'pydiffx.utils.text.'
    eng.add(verify.Contract(T + 'get_newline_for_type', params={},
                            call_effect=nl_effect))
    eng.add(verify.Contract(T + 'guess_line_endings', params={},
                            call_effect=guess_effect))
    eng.add(verify.Contract(T + 'split_lines', params={},
                            call_effect=split_effect))
    eng.add(verify.Contract(
        'pydiffx.utils.unified_diffs.get_unified_diff_hunks', params={},
        call_effect=hunks_effect))

    # ---- the specification of generate_stats over snapshots -------------
    def val_of(s):
        assert s[0] == 'val', s
        return s[1]

    def spec_file(ctx, fobj):
        """Expected snapshot of one file section after generate_stats."""
        attrs = fobj[3]
        dsec = attrs['diff_section'][3]
        msec = attrs['meta_section'][3]
        diff = val_of(dsec['_content'])
        opts = dsec['options'][1]
        le = val_of(opts['line_endings']) if 'line_endings' in opts \
            else Val.NoneV
        enc = val_of(opts['encoding']) if 'encoding' in opts else Val.NoneV
        typ = val_of(opts['type']) if 'type' in opts else Val.NoneV
        from pyvc.values import VBox
        has_diff = truth(ctx, VBox(diff))
        if not ctx.branch(has_diff):
            return fobj, None
        if ctx.branch(typ == Val.StrV(z3.StringVal('binary'))):
            return fobj, None
        ctx.assume(Val.is_BytesV(diff))
        data = Val.bval(diff)
        if ctx.branch(truth(ctx, VBox(le))):
            nl = U['NLFor'](le, enc)
        else:
            nl = U['GuessNL'](data, enc)
        if ctx.branch(U['SplitFails'](data, nl)):
            return fobj, None
        lines = U['SplitL'](data, nl)
        if ctx.branch(U['Fail'](lines)):
            return fobj, None
        ins, dele = U['TotIns'](lines), U['TotDel'](lines)
        meta = msec['_content']
        assert meta[0] == 'dict', meta
        md = dict(meta[1])
        st = dict(md['stats'][1]) if 'stats' in md else {}
        st['insertions'] = ('val', Val.IntV(ins))
        st['deletions'] = ('val', Val.IntV(dele))
        st['lines changed'] = ('val', Val.IntV(dele + ins))
        md['stats'] = ('dict', st, md['stats'][2] if 'stats' in md else None)
        return replace_meta(fobj, md), st

    def replace_meta(obj, md):
        attrs = dict(obj[3])
        ms = attrs['meta_section']
        mattrs = dict(ms[3])
        mattrs['_content'] = ('dict', md, mattrs['_content'][2])
        attrs['meta_section'] = ms[:3] + (mattrs,)
        # the subsections list holds the same section objects by ('ref', n)
        return obj[:3] + (attrs,)

    def get_int(st, key):
        if st is None or key not in st:
            return z3.IntVal(0)
        return Val.ival(val_of(st[key]))

    def meta_stats(obj):
        md = obj[3]['meta_section'][3]['_content'][1]
        return dict(md['stats'][1]) if 'stats' in md else None

    def merge(obj, new):
        md = dict(obj[3]['meta_section'][3]['_content'][1])
        st = dict(md['stats'][1]) if 'stats' in md else {}
        for k, v in new.items():
            st[k] = ('val', Val.IntV(v))
        md['stats'] = ('dict', st, md['stats'][2] if 'stats' in md else None)
        return replace_meta(obj, md)

    KEYS = ('insertions', 'deletions', 'lines changed')

    def spec_change(ctx, cobj):
        attrs = dict(cobj[3])
        files = []
        tot = {k: z3.IntVal(0) for k in KEYS}
        for f in attrs['files'][1]:
            nf, _ = spec_file(ctx, f)
            files.append(nf)
            st = meta_stats(nf)
            for k in KEYS:
                tot[k] = tot[k] + get_int(st, k)
        tot['files'] = z3.IntVal(len(files))
        attrs['files'] = ('list', files, attrs['files'][2])
        return merge(cobj[:3] + (attrs,), tot), tot

    def spec_tree(ctx, dobj):
        attrs = dict(dobj[3])
        changes = []
        tot = {k: z3.IntVal(0) for k in KEYS + ('files',)}
        for c in attrs['changes'][1]:
            nc, ctot = spec_change(ctx, c)
            changes.append(nc)
            for k in tot:
                tot[k] = tot[k] + ctot[k]
        tot['changes'] = z3.IntVal(len(changes))
        attrs['changes'] = ('list', changes, attrs['changes'][2])
        return merge(dobj[:3] + (attrs,), tot)

    def forking(fn):
        # the specification forks on its own case distinctions (analysed /
        # not analysed); forks are ordinary path decisions
        def g(it, args, kw):
            saved = it.ctx.spec_mode
            it.ctx.spec_mode = 0
            try:
                return fn(it, args, kw)
            finally:
                it.ctx.spec_mode = saved
        return g

    def f_SPEC_STATS(it, args, kw):
        s = args[0].s
        assert len(s) == 1
        return scenario.VSnap([spec_tree(it.ctx, s[0])])
    eng.spec_funcs['SPEC_STATS'] = VFunc(forking(f_SPEC_STATS), 'SPEC_STATS')

    def f_SPEC_FILE_STATS(it, args, kw):
        return scenario.VSnap([spec_file(it.ctx, args[0].s[0])[0]])
    eng.spec_funcs['SPEC_FILE_STATS'] = VFunc(
        forking(f_SPEC_FILE_STATS), 'SPEC_FILE_STATS')
    return U


def stats_tree(shape, prestats):
    """shape: files per change; prestats: set of names ('d', 'c0', 'c0f1')
    that start with a stats dictionary holding a custom key."""
    def meta(name, key):
        if name in prestats:
            return ("{'%s': SYM_BOX(), 'stats': {'custom': SYM_BOX(), "
                    "'insertions': SYM_INT(), 'deletions': SYM_INT(), "
                    "'lines changed': SYM_INT(), 'files': SYM_INT()}}" % key)
        return "{'%s': SYM_BOX()}" % key
    lines = ['d = DiffX()', 'd.meta = ' + meta('d', 'k')]
    for ci, nfiles in enumerate(shape):
        lines += ['c%d = d.add_change()' % ci,
                  'c%d.meta = %s' % (ci, meta('c%d' % ci, 'id'))]
        for fi in range(nfiles):
            f = 'c%df%d' % (ci, fi)
            lines += ['%s = c%d.add_file()' % (f, ci),
                      '%s.meta = %s' % (f, meta(f, 'path')),
                      '%s.diff = SYM_BYTES()' % f,
                      "%s.diff_section.options['type'] = SYM_TYPE()" % f,
                      "%s.diff_section.options['line_endings'] = SYM_LE()"
                      % f,
                      "%s.diff_section.options['encoding'] = SYM_ENC()" % f]
    return '\n'.join(lines) + '\n'


def c13_scenarios(tier):
    out = []
    opt = {'stats_stubs': True}
    shapes = [((1,), ()), ((1,), ('d', 'c0', 'c0f0')), ((2,), ('c0f1',)),
              ((1, 1), ('c1',)), ((0,), ()), ((), ('d',))]
    if tier != 'quick':
        shapes += [((2, 1), ('d', 'c0f0', 'c1f0')), ((3,), ('c0f1',))]
    for shape, pre in shapes:
        name = 'c13.tree.%s.pre_%s' % ('x'.join(map(str, shape)) or 'empty',
                                       '_'.join(pre) or 'none')
        out.append((name, stats_tree(shape, pre) + '''
before = SNAP(d)
d.generate_stats()
after = SNAP(d)
''', [('stats_exact_additive_nondestructive',
       'SAME(SPEC_STATS(before), after)')], (Exception,), opt))
    out.append(('c13.idempotent', stats_tree((2,), ('c0f0',)) + '''
d.generate_stats()
once = SNAP(d)
d.generate_stats()
twice = SNAP(d)
''', [('twice_equals_once', 'SAME(once, twice)')], (Exception,), opt))
    out.append(('c13.file_level', stats_tree((1,), ('c0f0',)) + '''
before = SNAP(c0f0)
others = SNAP(d.meta_section, c0.meta_section)
c0f0.generate_stats()
after = SNAP(c0f0)
''', [('file_stats', 'SAME(SPEC_FILE_STATS(before), after)'),
      ('nothing_else', 'SAME(others, SNAP(d.meta_section, '
                       'c0.meta_section))')], (Exception,), opt))
    return out


# --- C05 / C06: the object-model writer drives the streaming writer -------
# exactly as the specification traversal of the tree prescribes
WRITER_DEFAULTS = {
    '__init__': {'encoding': 'utf-8', 'version': '1.0'},
    'new_change': {'encoding': None},
    'new_file': {'encoding': None},
    'write_preamble': {'encoding': None, 'indent': 4, 'line_endings': None,
                       'mimetype': None},
    'write_meta': {'encoding': None, 'meta_format': 'json',
                   'line_endings': None},
    'write_diff': {'diff_type': None, 'encoding': None,
                   'line_endings': None},
}
CONTENT_ARG = {'preamble': 'text', 'meta': 'metadata', 'diff': 'content'}
REMAP = {'diff': {'type': 'diff_type'}, 'meta': {'format': 'meta_format'}}


def register_trace_writer(eng):
    """Streaming writer stub that records every call with its bound
    arguments (ghost trace) and has no other effect."""
    import z3
    from contracts import writer as W
    from pyvc.values import Val, VBox, VStr, VNone
    from pyvc.symex import truth

    def recorder(m):
        def effect(it, bound):
            tr = it.ctx.ghost.setdefault('trace', [])
            tr.append((m, {k: v for k, v in bound.items() if k != 'self'}))
            return VNone
        return effect
    for m in WRITER_API:
        eng.add(verify.Contract(W.QN + m, params={},
                                call_effect=recorder(m)))

    def py_val(x):
        from pyvc.values import from_py
        return from_py(x)

    def val_term(ctx, v):
        """z3 term (Val) or structural snapshot for an argument value."""
        return scenario.snap_value(ctx, v, {})

    def expected_calls(ctx, dobj):
        calls = []

        def opts_of(sec):
            return {k: x for k, x in sec[3]['options'][1].items()}

        def content_section(sec, name):
            c = sec[3]['_content']
            if c[0] == 'dict':
                nonempty = bool(c[1])
            else:
                nonempty = ctx.branch(truth(ctx, VBox(c[1])))
            if not nonempty:
                return
            args = {CONTENT_ARG[name]: c}
            for k, x in opts_of(sec).items():
                args[REMAP.get(name, {}).get(k, k)] = x
            calls.append(('write_' + name, args))

        def container(obj, name, first, second):
            a = obj[3]
            if name == 'diffx':
                o = dict(opts_of(obj))
                args = {}
                if 'version' in o:
                    args['version'] = o.pop('version')
                args['encoding'] = o.pop('encoding', ('val', Val.NoneV))
                args.update(o)
                calls.append(('__init__', args))
            else:
                calls.append(('new_' + name, dict(opts_of(obj))))
            content_section(a[first + '_section'], first)
            content_section(a[second + '_section'], second)
            if name == 'diffx':
                for c in a['changes'][1]:
                    container(c, 'change', 'preamble', 'meta')
            elif name == 'change':
                for f in a['files'][1]:
                    container(f, 'file', 'meta', 'diff')
        container(dobj, 'diffx', 'preamble', 'meta')
        return calls

    def f_TRACE_IS_SPEC(it, args, kw):
        ctx = it.ctx
        saved = ctx.spec_mode
        ctx.spec_mode = 0
        try:
            exp = expected_calls(ctx, args[0].s[0])
        finally:
            ctx.spec_mode = saved
        got = ctx.ghost.get('trace', [])
        if [m for m, _ in exp] != [m for m, _ in got]:
            return VBool(False)
        conj = []
        for (m, ea), (_, ga) in zip(exp, got):
            dflt = WRITER_DEFAULTS[m]
            names = set(ga) - {'fp'}
            if set(ea) - names:
                return VBool(False)      # an argument the API does not have
            for n in sorted(names):
                g = scenario.normalise(val_term(ctx, ga[n]))
                e = scenario.normalise(
                    ea[n] if n in ea else val_term(ctx, py_val(dflt[n])))
                conj.append(scenario.snaps_equal(e, g))
        return VBool(z3.And(conj + [z3.BoolVal(True)]))
    eng.spec_funcs['TRACE_IS_SPEC'] = VFunc(f_TRACE_IS_SPEC, 'TRACE_IS_SPEC')


def c05_scenarios(tier):
    out = []
    opt = {'trace_writer': True}

    def tree(shape, empties=False):
        lines = ['d = DiffX()',
                 "d.options['encoding'] = SYM_STR()",
                 'd.preamble = SYM_STR()',
                 "d.preamble_section.options['indent'] = SYM_INT()",
                 "d.preamble_section.options['mimetype'] = SYM_BOX()",
                 "d.meta = {'k': SYM_BOX()}",
                 "d.meta_section.options['encoding'] = SYM_BOX()"]
        for ci, nf in enumerate(shape):
            c = 'c%d' % ci
            lines += ['%s = d.add_change()' % c,
                      "%s.options['encoding'] = SYM_BOX()" % c,
                      '%s.preamble = SYM_STR()' % c,
                      "%s.preamble_section.options['line_endings'] = "
                      "SYM_BOX()" % c]
            if not empties:
                lines.append("%s.meta = {'id': SYM_BOX()}" % c)
            else:
                lines.append("%s.meta_section.options['encoding'] = "
                             "SYM_BOX()" % c)
            for fi in range(nf):
                f = '%sf%d' % (c, fi)
                lines += ['%s = %s.add_file()' % (f, c),
                          "%s.options['encoding'] = SYM_BOX()" % f,
                          "%s.meta = {'path': SYM_BOX()}" % f,
                          "%s.meta_section.options['format'] = SYM_BOX()"
                          % f,
                          '%s.diff = SYM_BYTES()' % f,
                          "%s.diff_section.options['type'] = SYM_BOX()" % f,
                          "%s.diff_section.options['line_endings'] = "
                          "SYM_BOX()" % f,
                          "%s.diff_section.options['encoding'] = SYM_BOX()"
                          % f]
        return '\n'.join(lines) + '\n'
    shapes = [((1,), False), ((2,), True), ((1, 1), False), ((), False)]
    if tier != 'quick':
        shapes += [((2, 1), False), ((0, 1), True)]
    for shape, emp in shapes:
        name = 'c05.writer_calls.%s%s' % (
            'x'.join(map(str, shape)) or 'empty', '.empties' if emp else '')
        out.append((name, tree(shape, emp) + '''
before = SNAP(d)
w = DiffXDOMWriter()
w.write_stream(d, io.BytesIO())
''', [('calls_are_the_specification_traversal', 'TRACE_IS_SPEC(before)'),
      ('tree_unchanged', 'SAME(before, SNAP(d))')], (), opt))
    return out


def c06_scenarios(tier):
    """The object-model reader builds, from a record sequence, exactly the
    tree the rules prescribe (options verbatim minus length, content as
    reported, fresh defaults elsewhere)."""
    out = []

    def rec(var, sid, opts, content=None):
        level = len(sid) - len(sid.lstrip('.'))
        items = ["'level': %d" % level, "'line': SYM_INT()",
                 "'section': '%s'" % sid, "'type': '%s'" % sid.lstrip('.'),
                 "'options': %s" % opts]
        if content:
            items.append(content)
        return '%s = {%s}' % (var, ', '.join(items))

    def scenario_for(shape, name):
        lines = ["o_main = {'encoding': SYM_STR(), 'version': '1.0'}",
                 rec('r0', 'diffx', 'dict(o_main)'),
                 "t_pre = SYM_STR()",
                 "o_pre = {'indent': SYM_INT(), 'line_endings': SYM_BOX(), "
                 "'mimetype': SYM_BOX()}",
                 rec('r1', '.preamble', "dict(o_pre, length=SYM_INT())",
                     "'text': t_pre"),
                 "m_main = {'k': SYM_BOX()}",
                 "o_meta = {'format': 'json', 'encoding': SYM_BOX()}",
                 rec('r2', '.meta', "dict(o_meta, length=SYM_INT())",
                     "'metadata': m_main")]
        recs = ['r0', 'r1', 'r2']
        exp = ['e = DiffX()', 'e.options.clear()',
               'e.options.update(o_main)', 'e.preamble = t_pre',
               'e.preamble_section.options.clear()',
               'e.preamble_section.options.update(o_pre)',
               'e.meta = m_main', 'e.meta_section.options.clear()',
               'e.meta_section.options.update(o_meta)']
        n = 3
        for ci, nf in enumerate(shape):
            c = 'c%d' % ci
            lines += ["o_%s = {'encoding': SYM_STR()}" % c,
                      rec('r%d' % n, '.change', 'dict(o_%s)' % c)]
            recs.append('r%d' % n)
            n += 1
            exp += ['e%s = e.add_change()' % c,
                    'e%s.options.update(o_%s)' % (c, c)]
            if ci == 0:
                lines += ["t_%s = SYM_STR()" % c,
                          "o_%sp = {'line_endings': SYM_BOX()}" % c,
                          rec('r%d' % n, '..preamble',
                              'dict(o_%sp, length=SYM_INT())' % c,
                              "'text': t_%s" % c)]
                recs.append('r%d' % n)
                n += 1
                exp += ['e%s.preamble = t_%s' % (c, c),
                        'e%s.preamble_section.options.clear()' % c,
                        'e%s.preamble_section.options.update(o_%sp)'
                        % (c, c)]
            for fi in range(nf):
                f = '%sf%d' % (c, fi)
                lines += ["o_%s = {}" % f,
                          rec('r%d' % n, '..file', 'dict(o_%s)' % f),
                          "m_%s = {'path': SYM_BOX()}" % f,
                          "o_%sm = {'format': SYM_BOX()}" % f,
                          rec('r%d' % (n + 1), '...meta',
                              'dict(o_%sm, length=SYM_INT())' % f,
                              "'metadata': m_%s" % f),
                          "b_%s = SYM_BYTES()" % f,
                          "o_%sd = {'type': SYM_BOX(), 'line_endings': "
                          "SYM_BOX()}" % f,
                          rec('r%d' % (n + 2), '...diff',
                              'dict(o_%sd, length=SYM_INT())' % f,
                              "'diff': b_%s" % f)]
                recs += ['r%d' % n, 'r%d' % (n + 1), 'r%d' % (n + 2)]
                n += 3
                exp += ['e%s = e%s.add_file()' % (f, c),
                        'e%s.meta = m_%s' % (f, f),
                        'e%s.meta_section.options.clear()' % f,
                        'e%s.meta_section.options.update(o_%sm)' % (f, f),
                        'e%s.diff = b_%s' % (f, f),
                        'e%s.diff_section.options.clear()' % f,
                        'e%s.diff_section.options.update(o_%sd)' % (f, f)]
        lines.append('recs = [%s]' % ', '.join(recs))
        lines += ['r = DiffXDOMReader(DiffX)',
                  'r.reader_cls = LIST_READER(recs)',
                  't = r.parse(io.BytesIO(b""))',
                  'other = DiffX()', 'pristine = SNAP(DiffX())']
        lines += exp
        return (name, '\n'.join(lines) + '\n',
                [('tree_is_what_the_records_say', 'SAME(SNAP(t), SNAP(e))'),
                 ('defaults_untouched', 'SAME(SNAP(other), pristine)')],
                (), {'list_reader': True})
    shapes = [(1,), (1, 1), ()]
    if tier != 'quick':
        shapes += [(2,), (2, 1)]
    for shape in shapes:
        out.append(scenario_for(shape, 'c06.reader_tree.%s' % (
            'x'.join(map(str, shape)) or 'empty')))
    return out


# --- C14: implementation == specification on short line lists -------------
# The hunk parser and an independent specification (a fold over line classes,
# written here in the driver) are executed on the SAME list of symbolic lines;
# every observable of the result must agree.  Unbounded in the contents of
# the lines, bounded in their number.
HUNK_SPEC = '''
HRE = UNIFIED_DIFF_HUNK_HEADER_RE
s_hunks = []
s_open = None
s_del = 0
s_ins = 0
s_err = None
s_stop = None
k = 0
for line in lines:
    k += 1
    if s_err is not None or s_stop is not None:
        continue
    cls = 'garbage'
    m = None
    if line.startswith(b'@@'):
        m = HRE.match(line)
        if m:
            cls = 'header'
    elif s_open is not None:
        if line.startswith(b'-'):
            cls = 'del'
        elif line.startswith(b'+'):
            cls = 'ins'
        elif line.startswith(b' '):
            cls = 'ctx'
        elif line.strip() == NO_NEWLINE_MARKER:
            cls = 'marker'
    if cls == 'header':
        if s_open is not None:
            s_err = k
            continue
        s_open = {'on': int(m.group('orig_num_lines') or '1'),
                  'mn': int(m.group('modified_num_lines') or '1'),
                  'os': int(m.group('orig_start')) - 1,
                  'ms': int(m.group('modified_start')) - 1,
                  'oi': 0, 'mi': 0, 'ofirst': None, 'olast': None,
                  'mfirst': None, 'mlast': None, 'oc': 0, 'mc': 0,
                  'context': m.group('context')}
    elif cls == 'garbage':
        if s_open is not None:
            s_err = k
            continue
        if not IG:
            s_stop = k - 1
            continue
    elif cls == 'del':
        if s_open['ofirst'] is None:
            s_open['ofirst'] = s_open['os'] + s_open['oi']
        s_open['olast'] = s_open['os'] + s_open['oi']
        s_open['oc'] = s_open['oc'] + 1
        s_open['oi'] = s_open['oi'] + 1
        s_del += 1
    elif cls == 'ins':
        if s_open['mfirst'] is None:
            s_open['mfirst'] = s_open['ms'] + s_open['mi']
        s_open['mlast'] = s_open['ms'] + s_open['mi']
        s_open['mc'] = s_open['mc'] + 1
        s_open['mi'] = s_open['mi'] + 1
        s_ins += 1
    elif cls == 'ctx':
        s_open['oi'] = s_open['oi'] + 1
        s_open['mi'] = s_open['mi'] + 1
    if s_open is not None and s_open['oi'] >= s_open['on'] and \\
            s_open['mi'] >= s_open['mn']:
        # context before the first / after the last change: the smaller of
        # the two sides that have changes, 0 if neither has
        o_has = s_open['ofirst'] is not None
        m_has = s_open['mfirst'] is not None
        o_pre = (s_open['ofirst'] - s_open['os']) if o_has else 0
        m_pre = (s_open['mfirst'] - s_open['ms']) if m_has else 0
        o_post = (s_open['on'] - (s_open['olast'] - s_open['os'] + 1)) \\
            if o_has else 0
        m_post = (s_open['mn'] - (s_open['mlast'] - s_open['ms'] + 1)) \\
            if m_has else 0
        if o_has and m_has:
            s_open['pre'] = min(o_pre, m_pre)
            s_open['post'] = min(o_post, m_post)
        elif o_has:
            s_open['pre'] = o_pre
            s_open['post'] = o_post
        elif m_has:
            s_open['pre'] = m_pre
            s_open['post'] = m_post
        else:
            s_open['pre'] = 0
            s_open['post'] = 0
        s_hunks.append(s_open)
        s_open = None
if s_err is None and s_open is not None:
    s_err = len(lines)
if s_err is not None:
    s_out = ('malformed', s_err)
else:
    s_out = ('ok', s_stop if s_stop is not None else len(lines), s_del,
             s_ins, len(s_hunks))
'''

HUNK_IMPL = '''
try:
    r = get_unified_diff_hunks(lines, ignore_garbage=IG)
    out = ('ok', r['num_processed_lines'], r['total_deletes'],
           r['total_inserts'], len(r['hunks']))
    hs = r['hunks']
except MalformedHunkError as e:
    out = ('malformed', e.line_num)
    hs = []
'''


def c14_scenarios(tier):
    """n symbolic lines; for n >= 2 the input space is PARTITIONED by the
    first byte(s) of every line (exhaustive, mutually exclusive ASSUMEs) so
    that the parts run in parallel."""
    import itertools
    out = []
    nmax = 2 if tier == 'quick' else 3
    first = [("lines[%d].startswith(b'@@') and "
              "bool_of(UNIFIED_DIFF_HUNK_HEADER_RE.match(lines[%d]))", 'M'),
             ("lines[%d].startswith(b'@@') and not "
              "bool_of(UNIFIED_DIFF_HUNK_HEADER_RE.match(lines[%d]))", 'N'),
             ("not lines[%d].startswith(b'@@')", 'x')]
    later = first[:2] + [
             ("lines[%d].startswith(b'-')", 'd'),
             ("lines[%d].startswith(b'+')", 'i'),
             ("lines[%d].startswith(b' ')", 'c'),
             ("not lines[%d].startswith(b'@@') and "
              "not lines[%d].startswith(b'-') and "
              "not lines[%d].startswith(b'+') and "
              "not lines[%d].startswith(b' ')", 'o'),
    ]
    for n in range(1, nmax + 1):
        parts = [()] if n == 1 else list(itertools.product(
            *([first] + [later] * (n - 1))))
        # ignore_garbage is symbolic too: the paths fork on it only where
        # the parser reads it
        for ig in ('SYM_INT() > 0',):
            for part in parts:
                assumes = ''.join(
                    'ASSUME(%s)\n' % (c.replace('%d', str(j)))
                    for j, (c, _t) in enumerate(part))
                tag = ''.join(t for _c, t in part) or 'all'
                src = ('IG = %s\nlines = [%s]\n' % (ig, ', '.join(
                    'SYM_BYTES()' for _ in range(n)))) + assumes + \
                    HUNK_IMPL + HUNK_SPEC
                clauses = [('verdict_totals_processed', 'out == s_out'),
                           ('hunk_count', 'len(hs) == (len(s_hunks) if '
                                          's_err is None else 0)')]
                for j in range(n):
                    g = ('s_err is None and len(s_hunks) > %d and '
                         'len(hs) > %d' % (j, j))
                    for side, pre in (('orig', 'o'), ('modified', 'm')):
                        for fld, sf in (('start_line', 's'),
                                        ('num_lines', 'n'),
                                        ('num_lines_changed', 'c'),
                                        ('first_changed_line', 'first'),
                                        ('last_changed_line', 'last')):
                            clauses.append((
                                'hunk%d.%s.%s' % (j, side, fld),
                                "(same_value(hs[%d]['%s']['%s'], "
                                "s_hunks[%d]['%s%s']) if (%s) else True)"
                                % (j, side, fld, j, pre, sf, g)))
                    for fld, sf in (('lines_of_context_pre', 'pre'),
                                    ('lines_of_context_post', 'post'),
                                    ('context', 'context')):
                        clauses.append((
                            'hunk%d.%s' % (j, fld),
                            "(same_value(hs[%d]['%s'], s_hunks[%d]['%s']) "
                            "if (%s) else True)" % (j, fld, j, sf, g)))
                # (ValueError: CPython's int() refuses numerals of more
                # than 4300 digits - the same explicit range condition as
                # in the contract of the function)
                out.append(('c14.equiv.n%d.%s' % (n, tag), src, clauses,
                            (ValueError,), {'hunks': True}))
    return out
