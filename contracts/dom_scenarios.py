"""Scenarios for the object-model properties (C18, C19, C13, C05/C06).

A scenario is a short driver of the real public API executed symbolically
through the real ASTs (object model, descriptors, DOM writer and streaming
writer are inlined; DiffXWriter._prepare_content, split_lines etc. by
contract) with symbolic VALUES on a fixed SHAPE, followed by clauses that
become obligations.  Unbounded in values, bounded in shape."""
from pyvc import verify, scenario
from pyvc.values import VFunc, VBool, VRef, VNone, box, DictCell, Unsupported

MOD = 'pydiffx.dom.objects'

# --- specification-side table of the typed attributes (C19) ---------------
STR, INT = 'str', 'int'
OPTION_ATTRS = {
    # attribute suffix -> (python type, allowed choices or None)
    'encoding': (STR, None),
    'version': (STR, ('1.0',)),
    'indent': (INT, None),
    'line_endings': (STR, ('dos', 'unix')),
    'mimetype': (STR, ('text/markdown', 'text/plain')),
    'format': (STR, ('json',)),
    'type': (STR, ('binary', 'text')),
}
CONTENT_TYPES = {'preamble': 'str', 'meta': 'dict', 'diff': 'bytes'}
TARGET_ATTRS = {
    'd': ['encoding', 'version', 'preamble', 'preamble_encoding',
          'preamble_indent', 'preamble_line_endings', 'preamble_mimetype',
          'meta', 'meta_encoding', 'meta_format'],
    'c': ['encoding', 'preamble', 'preamble_encoding', 'preamble_indent',
          'preamble_line_endings', 'preamble_mimetype', 'meta',
          'meta_encoding', 'meta_format'],
    'f': ['encoding', 'meta', 'meta_encoding', 'meta_format', 'diff',
          'diff_encoding', 'diff_line_endings', 'diff_type'],
}


def attr_kind(attr):
    if attr in CONTENT_TYPES:
        return ('content', CONTENT_TYPES[attr], None)
    suffix = attr.split('_', 1)[1] if '_' in attr and \
        attr.split('_', 1)[0] in ('preamble', 'meta', 'diff') else attr
    t, ch = OPTION_ATTRS[suffix]
    return ('option', t, ch)


WRITER_API = ('__init__', 'new_change', 'new_file', 'write_preamble',
              'write_meta', 'write_diff')


def make_engine(stub_writer=False):
    from contracts import writer as W, text_utils as T
    eng = verify.Engine()
    eng.inline_all_repo = True
    W.register(eng)
    for k in list(eng.contracts):
        if k.startswith(W.QN) and not k.endswith('_prepare_content'):
            del eng.contracts[k]
    if stub_writer:
        # The streaming writer seen from the object-model writer: any
        # outcome (return or any exception), no effect on the arguments.
        # The "no effect on the arguments" half is an obligation of the
        # real methods (contracts/writer.py: arg_unchanged on write_meta;
        # every other argument is an immutable scalar or a ** copy).
        for m in WRITER_API:
            eng.add(verify.Contract(W.QN + m, params={},
                                    raises={Exception: None}))
    scenario.install(eng)
    eng.spec_funcs['box_is'] = VFunc(
        lambda it, a, k: VBool(box(a[0]) == box(a[1])), 'box_is')

    def f_same_obj(it, a, k):
        x, y = a
        if isinstance(x, VRef) and isinstance(y, VRef):
            return VBool(x.ref == y.ref)
        try:
            return VBool(box(x) == box(y))
        except Unsupported:
            return VBool(False)
    eng.spec_funcs['same_value'] = VFunc(f_same_obj, 'same_value')
    return eng


TREE = '''
d = DiffX()
c = d.add_change()
f = c.add_file()
d2 = DiffX()
c2 = d2.add_change()
'''


def c19_assignment(target, attr, value_kind):
    kind, typ, choices = attr_kind(attr)
    val = {'box': 'SYM_BOX()', 'dict': "{'k': SYM_BOX()}"}[value_kind]
    src = TREE + '''
v = %s
before = SNAP(d, d2)
ok = True
try:
    %s.%s = v
except (DiffXOptionValueError, TypeError):
    ok = False
after = SNAP(d, d2)
got = %s.%s
''' % (val, target, attr, target, attr)
    tp = {'str': 'isinstance(v, str)', 'int': 'isinstance(v, int)',
          'dict': 'isinstance(v, dict)',
          'bytes': 'isinstance(v, bytes)'}[typ]
    valid = tp
    clauses = [('typed', 'implies(ok, %s)' % tp),
               ('stored', 'implies(ok, same_value(got, v))'),
               ('atomic_on_reject', 'implies(not ok, SAME(before, after))')]
    if choices:
        clauses.append(('choice', 'implies(ok, v in %r)' % (choices,)))
        valid = '%s and v in %r' % (tp, choices)
    clauses.append(('accepts_valid', 'implies(%s, ok)' % valid))
    name = 'c19.set.%s.%s.%s' % (target, attr, value_kind)
    return name, src, clauses, ()


def c19_unknown_ctor(clsexpr, name_, valid):
    src = '''
d = DiffX()
c = d.add_change()
raised = False
try:
    x = %s(**{%r: SYM_BOX()})
except DiffXUnknownOptionError:
    raised = True
except (DiffXOptionValueError, TypeError):
    raised = False
''' % (clsexpr, name_)
    clauses = [('unknown_rejected', 'raised == %s' % (not valid))]
    return ('c19.ctor.%s.%s' % (clsexpr.split('(')[0].replace('.', '_'),
                                name_), src, clauses, ())


EQ_BUILD = '''
def_a = None
'''


def build_tree(var, nchanges, nfiles):
    lines = ['%s = DiffX()' % var,
             "%s.preamble_section.options['indent'] = SYM_BOX()" % var,
             '%s.preamble = SYM_STR()' % var,
             "%s.meta = {'k': SYM_BOX()}" % var]
    for ci in range(nchanges):
        c = '%s_c%d' % (var, ci)
        lines += ['%s = %s.add_change()' % (c, var),
                  "%s.options['encoding'] = SYM_BOX()" % c,
                  "%s.meta = {'id': SYM_BOX()}" % c]
        for fi in range(nfiles):
            f = '%s_f%d' % (c, fi)
            lines += ['%s = %s.add_file()' % (f, c),
                      "%s.meta = {'path': SYM_BOX()}" % f,
                      '%s.diff = SYM_BYTES()' % f,
                      "%s.diff_section.options['type'] = SYM_BOX()" % f]
    return '\n'.join(lines) + '\n'


def c19_equality(shape_a, shape_b):
    src = build_tree('a', *shape_a) + build_tree('b', *shape_b) + '''
e = (a == b)
ne = (a != b)
'''
    if shape_a == shape_b:
        clauses = [('eq_iff_structural', 'iff(e, SAME(SNAP(a), SNAP(b)))')]
    else:
        clauses = [('different_shape_unequal', 'not e')]
    name = 'c19.eq.%dx%d_vs_%dx%d' % (shape_a + shape_b)
    return name, src, clauses, ()


def c19_scenarios(tier):
    out = []
    for target, attrs in TARGET_ATTRS.items():
        for attr in attrs:
            out.append(c19_assignment(target, attr, 'box'))
            if attr in CONTENT_TYPES:
                out.append(c19_assignment(target, attr, 'dict'))
    for name_, valid in (('bogus', False), ('files', False),
                         ('options', True), ('encoding', True),
                         ('subsections', False), ('meta_format', True)):
        out.append(c19_unknown_ctor('DiffX', name_, valid))
    out.append(c19_unknown_ctor('d.add_change', 'bogus', False))
    out.append(c19_unknown_ctor('c.add_file', 'diff_bogus', False))
    shapes = [((1, 1), (1, 1)), ((2, 1), (1, 1)), ((1, 2), (1, 1)),
              ((1, 1), (2, 1)), ((0, 0), (1, 0))]
    for a, b in shapes:
        out.append(c19_equality(a, b))
    return out


# --- C18 -----------------------------------------------------------------
def c18_scenarios(tier):
    out = []
    out.append(('c18.fresh_defaults', '''
d1 = DiffX()
d2 = DiffX()
before = SNAP(d2)
d1.meta['x'] = SYM_BOX()
d1.options['encoding'] = SYM_BOX()
d1.preamble_section.options['indent'] = SYM_BOX()
d1.meta_section.options['format'] = SYM_BOX()
ch = d1.add_change()
ch.meta['y'] = SYM_BOX()
after = SNAP(d2)
d3 = DiffX()
fresh = SNAP(d3)
pristine = SNAP(DiffX())
''', [('other_tree_unchanged', 'SAME(before, after)'),
      ('later_tree_has_pristine_defaults', 'SAME(fresh, pristine)'),
      ('new_tree_meta_empty', 'len(d3.meta) == 0')], ()))
    out.append(('c18.siblings', '''
d = DiffX()
c1 = d.add_change()
c2 = d.add_change()
f1 = c1.add_file()
f2 = c1.add_file()
before = SNAP(c2, f2)
c1.meta['a'] = SYM_BOX()
c1.options['encoding'] = SYM_BOX()
c1.preamble_section.options['indent'] = SYM_BOX()
f1.meta['b'] = SYM_BOX()
f1.diff_section.options['type'] = SYM_BOX()
f1.meta_section.options['format'] = SYM_BOX()
after = SNAP(c2, f2)
''', [('siblings_unchanged', 'SAME(before, after)')], ()))
    build = build_tree('a', 1, 1) + build_tree('b', 1, 1)
    out.append(('c18.observers.eq_repr', build + '''
before = SNAP(a, b)
e = (a == b)
r = repr(a)
r2 = repr(a_c0)
after = SNAP(a, b)
''', [('observers_pure', 'SAME(before, after)')], ()))
    out.append(('c18.observers.to_bytes', build_tree('a', 1, 1) + '''
before = SNAP(a)
bs = a.to_bytes()
after = SNAP(a)
''', [('to_bytes_pure', 'SAME(before, after)'),
      ('on_raise.to_bytes_pure_on_error', 'SAME(before, SNAP(a))')],
        (Exception,), {'stub_writer': True}))
    out.append(('c18.writer_object_reuse',
                build_tree('a', 1, 1) + build_tree('b', 1, 1) + '''
w = DiffXDOMWriter()
before = SNAP(a, b)
wbefore = SNAP(w)
w.write_stream(a, io.BytesIO())
mid = SNAP(a, b)
w.write_stream(b, io.BytesIO())
after = SNAP(a, b)
''', [('trees_unchanged_1', 'SAME(before, mid)'),
      ('trees_unchanged_2', 'SAME(before, after)'),
      ('writer_keeps_no_state', 'SAME(wbefore, SNAP(w))')],
        (Exception,), {'stub_writer': True}))
    out.append(('c18.add_with_arguments', '''
d = DiffX(meta={'k': SYM_BOX()})
c1 = d.add_change(meta={'a': SYM_BOX()}, preamble=SYM_STR())
c2 = d.add_change(meta={'a': SYM_BOX()})
f1 = c2.add_file(meta={'p': SYM_BOX()}, diff=SYM_BYTES())
f2 = c2.add_file(meta={'p': SYM_BOX()})
before = SNAP(d.meta_section, d.preamble_section, c1, f2)
c2.meta['z'] = SYM_BOX()
c2.preamble = SYM_STR()
c2.preamble_indent = SYM_INT()
f1.meta['z'] = SYM_BOX()
f1.diff = SYM_BYTES()
f1.diff_type = 'binary'
after = SNAP(d.meta_section, d.preamble_section, c1, f2)
''', [('others_unchanged', 'SAME(before, after)')], ()))
    return out


def run(scenarios, procs=12):
    """Verify scenarios in child processes; returns picklable records."""
    import multiprocessing as mp
    ctxm = mp.get_context('fork')
    with ctxm.Pool(min(procs, max(1, len(scenarios)))) as pool:
        return pool.map(_run_one, scenarios)


def _run_one(sc):
    import traceback
    from props.common import ObRec
    name, src, clauses, allowed = sc[:4]
    try:
        eng = make_engine(**(sc[4] if len(sc) > 4 else {}))
        v = scenario.run_scenario(eng, name, MOD, src, clauses,
                                  allowed=allowed, max_paths=4000)
        recs = [ObRec(o) for o in v.obligations]
        return {'name': name, 'undecided': v.undecided, 'paths': v.paths,
                'exit_kinds': v.exit_kinds, 'obligations': recs,
                'error': None}
    except Exception:
        return {'name': name, 'undecided': [], 'paths': 0, 'exit_kinds': {},
                'obligations': [], 'error': traceback.format_exc()[-1500:]}
