"""Composition lemmas for C01 (over the contracts, no code)."""
import z3

from pyvc import models as M

S = z3.StringVal


def lemmas():
    x, l, ind, r, sp = z3.Strings('x l ind r sp')
    n = z3.Int('n')
    spaces = z3.Star(z3.Re(S(' ')))
    out = []
    # L-indent: the reader's strip undoes the writer's indentation of a line
    # (facts of StripIndent as in pyvc.models.indent_pattern_sub)
    out.append(('indent_strip_inverse', [
        n >= 1, z3.InRe(ind, spaces), z3.Length(ind) == n,
        x == z3.Concat(ind, l),
        # StripIndent facts
        z3.SuffixOf(r, x), x == z3.Concat(sp, r), z3.InRe(sp, spaces),
        z3.Length(sp) <= n,
        z3.Or(z3.Length(sp) == n, z3.Not(z3.PrefixOf(S(' '), r))),
        # B7 (trusted, definitional): every character of a word of ' '* is
        # a space - instantiated at the one position the argument needs
        z3.Implies(z3.And(z3.Length(sp) >= 0,
                          z3.Length(sp) < z3.Length(ind)),
                   z3.SubString(ind, z3.Length(sp), 1) == S(' ')),
        # at least one space is there, so the pattern ^ {1,n} matches
        r != l],
        'L-indent-line: stripping up to n leading spaces from (n spaces + '
        'line) gives the line back, whatever the line starts with (uses B7: '
        'a word of the language " "* consists of spaces)'))
    return out
