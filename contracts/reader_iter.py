"""Contract of DiffXReader.iter_sections (C04 reader side, C10, C12, C07a).

The main loop is cut at an invariant that ties the implementation state
(valid_sections, encodings, prev_container_level) to ghost specification
state updated at every `yield` by the *specification's* rules:

  last  - id of the last yielded section (START before the first)
  eff   - effective encodings of the open containers (main, change, file):
          at a container of 0-based level L with own encoding option `own`:
              eff' = eff[:L] + [own if declared else (eff[L-1] or None)]
"""
import z3

from pyvc.verify import (Contract, Obj, Stream, Int, Box, OneOf, NoneT, Const,
                         Custom, ListOf, Record, SymDict, Str)
from pyvc.values import (VSymSet, VStr, VInt, VNone, VBox, VRef, VTuple,
                         VConc, VFunc, VBool, DictCell, SeqCell, Val, L_len,
                         L_at, SeqVal, is_concrete_str, concrete_str,
                         Unsupported)
from pyvc import lists
from contracts import reader_header, reader_content
from specs import sections as SP

NAME = 'pydiffx.reader.DiffXReader.iter_sections'
S = z3.StringVal


def set_array(ids):
    a = z3.K(z3.StringSort(), z3.BoolVal(False))
    for x in sorted(ids):
        a = z3.Store(a, S(x), z3.BoolVal(True))
    return a


def to_member_array(it, v):
    if isinstance(v, VSymSet):
        return v.member
    if isinstance(v, VTuple):
        return set_array([concrete_str(x) for x in v.items])
    if isinstance(v, VConc) and isinstance(v.py, (set, frozenset)):
        return set_array(v.py)
    raise Unsupported('set value %r' % (v,))


def f_same_set(it, args, kw):
    a = to_member_array(it, args[0])
    b = to_member_array(it, args[1])
    return VBool(a == b)


def f_table_row(it, args, kw):
    last = concrete_str(args[0])
    return VConc(frozenset(SP.MAY_FOLLOW[last]))


def f_depth(it, args, kw):
    return VInt(SP.CONTAINER_DEPTH[concrete_str(args[0])])


def ghost(it, env):
    cell = it.ctx.cell(it.getattr(env['self'], '_fp'))
    return {'data': VStr(cell.data, True), 'pos0': VInt(cell.pos)}


def header_result_spec():
    """What _read_header returns at the call site: None or a record whose
    section id is one of the nine (forked concretely)."""
    def mk(sid):
        def make(it, name):
            ctx = it.ctx
            d = DictCell()
            d.items['level'] = VInt(SP.LEVEL_OF[sid])
            d.items['line'] = VInt(ctx.fresh_int('line'))
            d.items['options'] = SymDict().make(it, 'options')
            # option values are ints or strs (what _read_header stores)
            arr, dom = ctx.cell(d.items['options']).sym
            for key in ('encoding', 'length', 'indent', 'line_endings',
                        'format', 'version'):
                e = z3.Select(arr, S(key))
                ctx.assume(z3.Or(Val.is_IntV(e), Val.is_StrV(e)))
            d.items['section'] = VStr(sid, False)
            d.items['type'] = VStr(sid.lstrip('.'), False)
            return ctx.alloc(d)
        return Custom(make)
    return OneOf(NoneT(), *[mk(s) for s in SP.NINE])


def register(engine, only_last=None):
    hc = reader_header.register(engine)
    hc.result = header_result_spec()
    # the record's level is the number of dots of its id (proved in
    # _read_header: level == len(m.group('level')))
    cc = reader_content.register(engine)
    engine.spec_funcs['same_set'] = VFunc(f_same_set, 'same_set')
    engine.spec_funcs['table_row'] = VFunc(f_table_row, 'table_row')
    engine.spec_funcs['depth_of'] = VFunc(f_depth, 'depth_of')
    from pyvc import extract
    DiffXParseError = extract.load_module('pydiffx.errors')[0].DiffXParseError

    def prepare(it):
        ctx = it.ctx
        ctx.ghost_env['last'] = VStr(SP.START, False)
        e = lists.fresh_list(ctx, SeqVal, 'eff0')
        ctx.assume(L_len(e) == 0)
        ctx.ghost_env['eff'] = ctx.alloc(SeqCell(e, 'box'))

    def at_head(it):
        ctx = it.ctx
        alts = [SP.START] + SP.NINE
        if only_last is not None:
            alts = [only_last]
        d = ctx.choose(len(alts))
        ctx.ghost_env['last'] = VStr(alts[d], False)
        e = lists.fresh_list(ctx, SeqVal, 'eff')
        ctx.ghost_env['eff'] = ctx.alloc(SeqCell(e, 'box'))

    def on_yield(it, rec):
        """Ghost update by the specification's rules."""
        ctx = it.ctx
        c = ctx.cell(rec)
        sid = concrete_str(c.items['section'])
        ctx.ghost_env['last'] = VStr(sid, False)
        if 'metadata' in c.items:
            from pyvc.models import VJson, F_JsonIsDict
            md = c.items['metadata']
            if isinstance(md, VJson):
                ctx.oblige('yield.metadata_is_object', F_JsonIsDict(md.h),
                           kind='post')
            else:
                ctx.oblige('yield.metadata_is_object', z3.BoolVal(False),
                           kind='post')
        if sid in SP.CONTAINERS:
            L = SP.CONTAINERS[sid]
            effc = ctx.cell(ctx.ghost_env['eff'])
            oc = ctx.cell(c.items['options'])
            arr, dom = oc.sym
            own_present = z3.Select(dom, S('encoding'))
            own = z3.Select(arr, S('encoding'))
            parent = L_at(effc.e, L - 1) if L > 0 else Val.NoneV
            new_top = z3.If(own_present, own, parent)
            base = lists.l_slice(ctx, effc.e, z3.IntVal(0), z3.IntVal(L))
            ne = lists.l_append(ctx, base, new_top)
            ctx.ghost_env['eff'] = ctx.alloc(SeqCell(ne, 'box'))
    engine.yield_hook = on_yield

    def content_ghost(it, env):
        """Ghost of the _read_content call: the encoding the specification
        prescribes for the section being read (caller's section_id/options
        and the ghost stack)."""
        ctx = it.ctx
        g = reader_content.ghost(it, env)
        caller = ctx.frames[-2].locals
        cg = getattr(ctx, 'caller_ghost', {})
        if 'section_id' in caller and 'eff' in cg and \
                is_concrete_str(caller['section_id']):
            sid = concrete_str(caller['section_id'])
            oc = ctx.cell(caller['options'])
            arr, dom = oc.sym
            own_present = z3.Select(dom, S('encoding'))
            own = z3.Select(arr, S('encoding'))
            effc = ctx.cell(cg['eff'])
            top = L_at(effc.e, L_len(effc.e) - 1)
            if sid in SP.INHERITING:
                exp = z3.If(own_present, own, top)
            else:
                exp = z3.If(own_present, own, Val.NoneV)
            g['expected_encoding'] = VBox(exp)
        else:
            g['expected_encoding'] = env['encoding']
        return g
    cc.ghost = content_ghost
    cc.requires.append(('encoding_by_spec',
                        'box_eq(encoding, expected_encoding)'))

    def f_box_eq(it, args, kw):
        from pyvc.values import box
        return VBool(box(args[0]) == box(args[1]))
    engine.spec_funcs['box_eq'] = VFunc(f_box_eq, 'box_eq')

    def f_none_or_str(it, args, kw):
        from pyvc.values import box
        e = box(args[0])
        return VBool(z3.Or(Val.is_NoneV(e), Val.is_StrV(e)))
    engine.spec_funcs['none_or_str'] = VFunc(f_none_or_str, 'none_or_str')

    c = Contract(
        NAME,
        params={'self': Obj('pydiffx.reader.DiffXReader', _fp=Stream(),
                            _linenum=Int(),
                            _file_newlines=OneOf(NoneT(), Const(b'\n'),
                                                 Const(b'\r\n')))},
        ghost=ghost,
        requires=[('linenum0', 'self._linenum >= 0')],
        loops={0: dict(
            prepare=prepare,
            at_head=at_head,
            shapes={'valid_sections': Custom(reader_header.symset),
                    'encodings': ListOf('box')},
            havoc=['self._fp.pos', 'self._linenum',
                   'self._file_newlines'],
            invariant=[
                ('table', 'same_set(valid_sections, table_row(last))'),
                ('depth', 'prev_container_level == '
                          '(depth_of(last) - 1 if depth_of(last) > 0 else 0)'),
                ('stack_len', 'len(encodings) == depth_of(last) + 1'),
                ('eff_len', 'len(eff) == depth_of(last)'),
                ('stack_bottom', 'is_none(encodings[0])'),
                ('stack_types', 'forall(lambda j: none_or_str(encodings[j]), '
                                '0, len(encodings))'),
                ('stack_eff', 'forall(lambda j: box_eq(encodings[j + 1], '
                              'eff[j]), 0, len(eff))'),
                ('pos', 'stream_pos(self._fp) <= len(data) and '
                        'stream_pos(self._fp) >= 0'),
                ('linenum', 'self._linenum >= 0'),
                ('data_frame', 'stream_data(self._fp) == data'),
            ],
        )},
        ensures=[],
        raises={DiffXParseError: 'exc_linenum >= 0'},
        exc_attrs={DiffXParseError: {'linenum': Int(), 'column': Box()}},
        generator=True,
    )
    engine.add(c)
    return c
