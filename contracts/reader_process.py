"""Contracts of DiffXReader._read_content and _process_content, verified
against the real bodies (C07, C08, C03, C01 reader side).

Recover(block, enc, kind, indent) - what the specification says the reader
does with the `length` bytes of a content section:
    newline  = EncNL(enc, kind)            (kind declared, or detected from
                                            the first line)
    lines    = SplitKeep(block, newline)
    stripped = [StripIndent(l, indent) for l in lines]   (if indent)
    text     = Dec(enc, ConcatAll(stripped))              (unless bytes kept)
    must end with the newline; the line counter advances by len(lines)
"""
import z3

from pyvc.verify import (Contract, Obj, Stream, Int, Box, OneOf, NoneT, Const,
                         Bool, Str, Bytes, Custom)
from pyvc.values import VStr, VInt, VNone, VBool, VFunc, Val
from pyvc import models as M
from contracts import text_utils as T

RC = 'pydiffx.reader.DiffXReader._read_content'
PC = 'pydiffx.reader.DiffXReader._process_content'
S = z3.StringVal


def ghost(it, env):
    cell = it.ctx.cell(it.getattr(env['self'], '_fp'))
    return {'data': VStr(cell.data, True), 'pos0': VInt(cell.pos)}


def nonempty_str(it, name):
    e = it.ctx.fresh_str(name)
    it.ctx.assume(z3.Length(e) > 0)
    return VStr(e, False)


def nonneg_int(it, name):
    e = it.ctx.fresh_int(name)
    it.ctx.assume(e >= 0)
    return VInt(e)


def errs():
    from pyvc import extract
    return extract.load_module('pydiffx.errors')[0]


def register_process(engine):
    """_process_content verified against Recover."""
    T.register_callsite(engine)
    # get_newline_for_type as a callee
    def gn_effect(it, b):
        T.nl_axioms(it.ctx)
        from pyvc.symex import unbox_choose
        le, enc = b['line_endings'], b['encoding']
        if isinstance(le, VBox_):
            le = unbox_choose(it.ctx, le)
        if isinstance(enc, VBox_):
            enc = unbox_choose(it.ctx, enc)
        e = enc.e if isinstance(enc, VStr) else S('ascii')
        nl = T.enc_nl(e, le.e)
        T.newline_facts(it.ctx, nl, e)
        return VStr(nl, True)
    from pyvc.values import VBox as VBox_
    c = Contract(
        'pydiffx.utils.text.get_newline_for_type',
        params={'line_endings': Box(), 'encoding': Box()},
        call_effect=gn_effect,
        raises={UnicodeError: None, LookupError: None,
                ValueError: 'not isinstance(line_endings, str) or '
                            'line_endings not in ("dos", "unix")'},
    )
    c.raises_iff = [ValueError]
    engine.add(c)
    E = errs()
    engine.add(Contract(
        PC,
        params={
            'self': Obj('pydiffx.reader.DiffXReader', _fp=Stream(),
                        _linenum=Int()),
            'content': Bytes(),
            'encoding': OneOf(NoneT(), Custom(nonempty_str)),
            'indent': OneOf(NoneT(), Custom(nonneg_int)),
            'line_endings': Box(),
            'keep_bytes': Bool(),
        },
        ghost=ghost,
        requires=[('content_nonempty', 'len(content) > 0'),
                  # A-re: regex repeat counts are limited to 2**32 - 2
                  ('content_below_4GiB', 'len(content) < 4294967295')],
        ensures=[
            ('stream_untouched', 'stream_pos(self._fp) == pos0 and '
                                 'stream_data(self._fp) == data'),
            ('type', 'isinstance(result, str) == '
                     '(old(encoding) is not None and not keep_bytes)'),
        ],
        internal_ensures=[
            ('ends_with_newline', 'content.endswith(newline)'),
            ('linenum_by_lines', 'self._linenum == old(self._linenum) + '
                                 'len(lines)'),
            ('lines_are_the_split', 'ConcatAll(lines) == old(content)'),
            ('bytes_kept', 'implies(not indent and (keep_bytes or '
                           'old(encoding) is None), '
                           'result == old(content))'),
        ],
        raises={E.DiffXParseError:
                'exc_linenum == old(self._linenum) and '
                'stream_pos(self._fp) == pos0',
                LookupError: 'stream_pos(self._fp) == pos0 and '
                             'self._linenum == old(self._linenum)',
                UnicodeError: 'stream_pos(self._fp) == pos0 and '
                              'self._linenum == old(self._linenum)'},
        exc_attrs={E.DiffXParseError: {'linenum': Int(), 'column': Box()}},
    ))

    def f_newline_used(it, args, kw):
        # the function's own local at exit (internal view)
        fr = it.ctx.frame
        nl = fr.locals.get('newline')
        if isinstance(nl, VStr) and nl.b:
            return nl
        g = it.ctx.ghost.get('newline_bytes')
        return g
    engine.spec_funcs['newline_used'] = VFunc(f_newline_used, 'newline_used')


def register_read(engine, with_short_read=True):
    """_read_content verified; _process_content by contract."""
    E = errs()
    T.install_spec(engine)
    engine.add(Contract(
        PC,
        params={'self': Obj('pydiffx.reader.DiffXReader', _fp=Stream(),
                            _linenum=Int()),
                'content': Bytes(), 'encoding': Box(), 'indent': Box(),
                'line_endings': Box(), 'keep_bytes': Bool()},
        ghost=ghost,
        requires=[('content_nonempty', 'len(content) > 0'),
                  ('content_below_4GiB', 'len(content) < 4294967295'),
                  ('encoding_type', 'encoding is None or '
                                    '(isinstance(encoding, str) and '
                                    'len(encoding) > 0)'),
                  ('indent_type', 'indent is None or '
                                  '(isinstance(indent, int) and indent >= 0)')],
        modifies=['self._linenum'],
        result=OneOf(Str(), Bytes()),
        ensures=[('linenum_mono', 'self._linenum >= old(self._linenum)')],
        raises={E.DiffXParseError: 'exc_linenum == old(self._linenum)',
                LookupError: 'self._linenum == old(self._linenum)',
                UnicodeError: 'self._linenum == old(self._linenum)'},
        exc_attrs={E.DiffXParseError: {'linenum': Int(), 'column': Box()}},
    ))
    rc = Contract(
        RC,
        params={
            'self': Obj('pydiffx.reader.DiffXReader', _fp=Stream(),
                        _linenum=Int()),
            'length': Int(),
            'encoding': OneOf(NoneT(), Custom(nonempty_str)),
            'indent': OneOf(NoneT(), Custom(nonneg_int)),
            'line_endings': Box(),
            'preserve_trailing_newline': Bool(), 'keep_bytes': Bool(),
        },
        ghost=ghost,
        requires=[
            ('length_range', '0 <= length and length <= 9223372036854775807'),
            ('data_below_4GiB', 'len(data) < 4294967295'),
        ],
        ensures=[
            # C07: exactly `length` bytes are taken as the content (fewer
            # only when the data ends first), whatever they contain
            ('consumed', 'stream_pos(self._fp) == '
                         '(pos0 + length if pos0 + length <= len(data) '
                         'else len(data))'),
            ('linenum_mono', 'self._linenum >= old(self._linenum)'),
            ('data_frame', 'stream_data(self._fp) == data'),
            # C07(c): a short read never yields a section  [KNOWN FINDING]
            ('short_read_detected', 'pos0 + length <= len(data)'),
        ],
        raises={E.DiffXParseError: 'exc_linenum == old(self._linenum)'},
        exc_attrs={E.DiffXParseError: {'linenum': Int(), 'column': Box()}},
    )
    if not with_short_read:
        rc.ensures = [e for e in rc.ensures if e[0] != 'short_read_detected']
    engine.add(rc)
