"""Contract of DiffXReader._read_header (C10, C11, C12, C17 call site)."""
import z3

from pyvc.verify import (Contract, Obj, Stream, Bytes, Int, Tup, Bool, OneOf,
                         NoneT, Const, Custom, Box)
from pyvc.values import (VSymSet, VStr, VInt, VNone, VExc, VRef, DictCell,
                         SeqCell, Val, L_len, L_at)
from pyvc import models as M
from pyvc import regex as rx
from contracts import reader_until

NAME = 'pydiffx.reader.DiffXReader._read_header'
S = z3.StringVal


def R(s):
    return z3.Re(S(s))


def cls(*ranges):
    parts = []
    for r in ranges:
        if len(r) == 2 and isinstance(r, tuple):
            parts.append(z3.Range(r[0], r[1]))
        else:
            parts.append(R(r))
    return z3.Union(*parts) if len(parts) > 1 else parts[0]


# --- the specification's header grammar (C11 statement, verbatim) ----------
ALNUM = [('A', 'Z'), ('a', 'z'), ('0', '9')]
KEY = z3.Concat(cls(('A', 'Z'), ('a', 'z')),
                z3.Star(cls(*(ALNUM + ['_', '-']))))
VALUE = z3.Plus(cls(*(ALNUM + ['/', '.', '_', '-'])))
PAIR = z3.Concat(KEY, R('='), VALUE)
NAMES = ['diffx', 'preamble', 'meta', 'change', 'file', 'diff']
NAME_RE = z3.Union(*[R(n) for n in NAMES])
OPTS = z3.Concat(PAIR, z3.Star(z3.Concat(R(', '), PAIR)))
HDR = z3.Concat(R('#'), z3.Loop(R('.'), 0, 3), NAME_RE, R(':'),
                z3.Option(z3.Concat(R(' '), OPTS)))
INTVAL = z3.Concat(z3.Option(R('-')), z3.Plus(z3.Range('0', '9')))


# --- specification of the parsed options: a fold over the pairs -------------
ArrV = z3.ArraySort(z3.StringSort(), Val)
ArrB = z3.ArraySort(z3.StringSort(), z3.BoolSort())
from pyvc.values import SeqString as _SL
F_PO_arr = z3.Function('ParseOptsVal', _SL, z3.IntSort(), ArrV)
F_PO_dom = z3.Function('ParseOptsDom', _SL, z3.IntSort(), ArrB)
MAX_INT_DIGITS = 4300


def conv_value(v):
    """Integer-valued option values are reported as integers (C11);
    CPython refuses to convert more than 4300 digits - stated assumption."""
    return z3.If(z3.And(z3.InRe(v, INTVAL), z3.Length(v) <= MAX_INT_DIGITS),
                 Val.IntV(M.F_IntOfStr(v)), Val.StrV(v))


def po_unfold(L, k):
    e = L_at(L, k)
    key = M.F_SplitHead(e, S('='))
    val = M.F_SplitTail(e, S('='))
    return z3.And(
        F_PO_arr(L, k + 1) == z3.Store(F_PO_arr(L, k), key, conv_value(val)),
        F_PO_dom(L, k + 1) == z3.Store(F_PO_dom(L, k), key,
                                       z3.BoolVal(True)))


def symset(it, name):
    arr = it.ctx.fresh(name, z3.ArraySort(z3.StringSort(), z3.BoolSort()))
    return VSymSet(arr)


def ghost(it, env):
    cell = it.ctx.cell(it.getattr(env['self'], '_fp'))
    return {'data': VStr(cell.data, True), 'pos0': VInt(cell.pos)}


def parse_error_hook(it, cls_, args, kwargs):
    names = ['msg', 'linenum', 'column']
    attrs = {'column': VNone}
    for n, a in zip(names, args):
        attrs[n] = a
    attrs.update(kwargs)
    return VExc(cls_, [attrs.get('msg')], attrs)


def code_pair_lang(engine_cls):
    """Q = the per-pair language the code's header regex enforces."""
    nospc = z3.Intersect(z3.AllChar(rx.RE), z3.Complement(z3.Union(
        R('='), R(','), *[R(c) for c in ' \t\n\r\x0b\x0c'])))
    noeq = z3.Intersect(z3.AllChar(rx.RE), z3.Complement(z3.Union(
        R(','), *[R(c) for c in ' \t\n\r\x0b\x0c'])))
    return z3.Concat(z3.Plus(nospc), R('='), z3.Plus(noeq))


def install_manual_hints():
    from pyvc import symex
    # which facts the two pair-level rejection obligations need (a hint only:
    # it selects a subset of the assumptions)
    # second route for the two large grammar_shape VCs (cvc5 needs the
    # header decomposition and the pair facts only; 0.2 s instead of unknown)
    symex.MANUAL_HINTS[NAME + '#post.grammar_shape'] = {
        'include': ['ret__read_until', 'pre!', 'suf!', 'rest!', 'wj!', 'k!'],
        'exclude': ['Count(', 'Join(', 'ParseOpts', 'dmap', 'ddom', 'elem!',
                    'SplitHead', 'SplitTail', 'sk_'],
    }
    # not_blank needs only: the line = stripped core in whitespace, the core
    # is non-empty, the line = header + its newline (cvc5: 0.1 s)
    symex.MANUAL_HINTS[NAME + '#raises.DiffXParseError.not_blank'] = {
        'include': ['strip!', 'pre!', 'suf!', 'SuffixOf('],
        'exclude': ['pos!', 'str.substr', 'elem!', 'g4!', 'Loop(', 'lws!'],
    }
    symex.MANUAL_HINTS[NAME + '#raises.DiffXParseError.internal'] = {
        'include': ['elem!', 'SplitHead', 'SplitTail', 'k!', 'InRe(pre!'],
        'exclude': ['Contains(g4', 'Contains(At_', 'wj!', 'Count(', 'Join(',
                    'IndexOf(pre', 'sk_', 'ParseOpts', 'dmap', 'ddom'],
    }


def register(engine, strict=True):
    install_manual_hints()
    from pyvc import symex as _sx
    _sx.MANUAL_HINTS[NAME + '#loop1.preserve.options_fold'] = {
        'include': ['ParseOpts', 'elem!', 'SplitTail', 'dmap', 'ddom',
                    'k!'],
        'exclude': ['wj!', 'Contains(', 'Count(', 'Join(', 'Len_StrList(Split(g4!20, ", ")) - ',
                    '-1 + Len_StrList'],
    }
    reader_until.register(engine)
    from pyvc import extract
    DiffXParseError = extract.load_module('pydiffx.errors')[0].DiffXParseError
    engine.exception_hooks[DiffXParseError] = parse_error_hook
    Q = code_pair_lang(None)
    rd = extract.load_module('pydiffx.reader')[0].DiffXReader
    KEYM = rx.Translator(rd._HEADER_OPTION_KEY_RE).match_lang('match')
    VALM = rx.Translator(rd._HEADER_OPTION_VALUE_RE).match_lang('match')

    def prepare_opts_loop(it):
        """Before the option loop: the options dict becomes symbolic, the
        list of pairs gets a ghost name, and the lemmas `split_factors` /
        `join_factors` (proved separately, props/C11) are instantiated."""
        ctx = it.ctx
        fr = ctx.frame
        opts = fr.locals['options']
        c = ctx.cell(opts)
        if c.sym is None and not c.items:
            c.sym = M.empty_sym_dict()
        (d, sep, L) = ctx.ghost['splits'][-1]
        ctx.ghost_env['pairs'] = ctx.alloc(SeqCell(L, 'bytes'))
        ctx.ghost_env['opts_text'] = VStr(d, True)
        j = ctx.fresh_int('fj')
        n = L_len(L)
        QS = z3.Concat(Q, z3.Star(z3.Concat(R(', '), Q)))
        # split_factors(Q): s in Q(, Q)*  =>  every split element is in Q.
        # The hypothesis is an obligation of its own (a regex inclusion
        # between the code's pattern and Q(, Q)*).
        ctx.oblige('lemma.split_factors.hyp', z3.InRe(d, QS), kind='lemma')
        ctx.assume_forall(j, z3.Implies(
            z3.And(j >= 0, j < n), z3.InRe(L_at(L, j), Q)), defaults=[])
        # B7: every split element occurs in the string
        ctx.assume_forall(j, z3.Implies(
            z3.And(j >= 0, j < n), z3.Contains(d, L_at(L, j))),
            defaults=[])
        # direction 2 of C11 (strict mode): a line of the grammar has
        # options in OPTS (lemma hdr_unique_options), and then every split
        # element is a PAIR (lemma split_factors for PAIR)
        hdr = fr.locals['header']
        ctx.assume(z3.Implies(z3.InRe(hdr.e, HDR), z3.InRe(d, OPTS)))
        ctx.assume_forall(j, z3.Implies(
            z3.And(j >= 0, j < n, z3.InRe(d, OPTS)),
            z3.InRe(L_at(L, j), PAIR)), defaults=[])
        # pair-level lemmas (proved in props/C11), instantiated by matching
        # at every pair the path talks about
        e_j = L_at(L, j)
        h_j = M.F_SplitHead(e_j, S('='))
        t_j = M.F_SplitTail(e_j, S('='))
        split_ok = z3.And(e_j == z3.Concat(h_j, S('='), t_j),
                          z3.Not(z3.Contains(h_j, S('='))))
        rng_j = z3.And(j >= 0, j < n)
        ctx.assume_forall(j, z3.Implies(
            z3.And(rng_j, split_ok, z3.InRe(e_j, PAIR)),
            z3.And(z3.InRe(h_j, KEY), z3.InRe(t_j, VALUE))), defaults=[])
        ctx.assume_forall(j, z3.Implies(
            z3.And(rng_j, z3.InRe(h_j, KEY)), z3.InRe(h_j, KEYM)),
            defaults=[])
        ctx.assume_forall(j, z3.Implies(
            z3.And(rng_j, z3.InRe(t_j, VALUE)), z3.InRe(t_j, VALM)),
            defaults=[])
        ctx.assume_forall(j, z3.Implies(
            z3.And(rng_j, split_ok, z3.InRe(e_j, Q), z3.InRe(h_j, KEYM),
                   z3.InRe(t_j, VALM)), z3.InRe(e_j, PAIR)), defaults=[])
        # ParseOpts: definitional unfolding (fold over the pairs)
        ea, ed = M.empty_sym_dict()
        ctx.assume(F_PO_arr(L, z3.IntVal(0)) == ea)
        ctx.assume(F_PO_dom(L, z3.IntVal(0)) == ed)
        ctx.assume_forall(j, z3.Implies(z3.And(j >= 0, j < n),
                                        po_unfold(L, j)), defaults=[])
        # join_factors(PAIR): all elements in PAIR  =>  s in PAIR(, PAIR)*
        j0 = ctx.fresh_int('wj')
        ctx.inst_terms.append(j0)
        ctx.assume(z3.Implies(
            z3.Implies(z3.And(j0 >= 0, j0 < n), z3.InRe(L_at(L, j0), PAIR)),
            z3.InRe(d, OPTS)))

    c = Contract(
        NAME,
        params={
            'self': Obj('pydiffx.reader.DiffXReader', _fp=Stream(),
                        _linenum=Int(),
                        _file_newlines=OneOf(NoneT(), Const(b'\n'),
                                             Const(b'\r\n'))),
            'valid_sections': Custom(symset),
        },
        ghost=ghost,
        requires=[('linenum_nonneg', 'self._linenum >= 0')],
        loops={
            0: dict(
                invariant=[
                    ('pos_range', 'pos0 <= stream_pos(self._fp) and '
                                  'stream_pos(self._fp) <= len(data)'),
                ],
                havoc=['self._fp.pos'],
                decreases='len(data) - stream_pos(self._fp)'),
            1: dict(
                prepare=prepare_opts_loop,
                index='_k',
                invariant=[
                    ('pairs_ok', 'forall(lambda j: in_re(pairs[j], PAIR), '
                                 '0, _k)'),
                    ('options_fold', 'options_are(options, pairs, _k)'),
                ],
                havoc=['options.sym'],
            ),
        },
        modifies=['self._fp.pos', 'self._linenum', 'self._file_newlines'],
        ensures=[
            ('pos_range', 'pos0 <= stream_pos(self._fp) and '
                          'stream_pos(self._fp) <= len(data)'),
            ('eof', 'implies(result is None, '
                    'stream_pos(self._fp) == len(data))'),
            ('valid_id', 'implies(result is not None, '
                         'result["section"] in valid_sections)'),
            ('line', 'implies(result is not None, '
                     'result["line"] == old(self._linenum) and '
                     'self._linenum == old(self._linenum) + 1)'),
            ('data_frame', 'stream_data(self._fp) == data'),
        ],
        internal_ensures=[
            # accepted  =>  the line has the grammar's shape, piece by piece
            # (props/C11 proves that this decomposition is exactly HDR)
            ('grammar_shape', 'implies(result is not None, header == b"#" + '
                              'm.group("level") + section_type + b":" + '
                              'sp_opts(options_str))'),
            ('grammar_level', 'implies(result is not None, '
                              'in_re(m.group("level"), DOTS))'),
            ('grammar_name', 'implies(result is not None, '
                             'in_re(section_type, NAMES_RE))'),
            ('grammar_opts', 'implies(result is not None and options_str, '
                             'in_re(bytes_of(options_str), OPTS))'),
            ('options_reported',
             'implies(result is not None and options_str, options_are('
             'result["options"], pairs, len(pairs)))'),
            ('level_dots', 'implies(result is not None, result["level"] == '
                           'len(m.group("level")))'),
        ],
        raises={DiffXParseError: 'exc_linenum == old(self._linenum)'},
        # C11, second direction: a line of the grammar whose id is allowed
        # is never rejected
        internal_raises={DiffXParseError:
                         'not strict or not in_re(header, HDR) or '
                         '(bound("section_id") and '
                         'section_id not in valid_sections)'},
        exc_attrs={DiffXParseError: {'linenum': Int(), 'column': Box()}},
    )
    from pyvc.values import VConc, VFunc, VBox

    def f_bytes_of(it, args, kw):
        x = args[0]
        if isinstance(x, VStr):
            return x
        if isinstance(x, VBox):
            return VStr(z3.If(Val.is_BytesV(x.e), Val.bval(x.e), S('')),
                        True)
        return VStr(S(''), True)

    def f_sp_opts(it, args, kw):
        t = f_bytes_of(it, args, kw).e
        return VStr(z3.If(z3.Length(t) > 0, z3.Concat(S(' '), t), S('')),
                    True)
    def f_options_are(it, args, kw):
        oc = it.ctx.cell(args[0])
        L = it.ctx.cell(args[1]).e
        k = args[2].e
        if oc.sym is None:
            arr, dom = M.empty_sym_dict()
            if oc.items:
                return VBool(False)
        else:
            arr, dom = oc.sym
        return VBool(z3.And(arr == F_PO_arr(L, k), dom == F_PO_dom(L, k)))
    from pyvc.values import VBool
    engine.spec_funcs['options_are'] = VFunc(f_options_are, 'options_are')

    def f_bound(it, args, kw):
        from pyvc.values import concrete_str
        return VBool(concrete_str(args[0]) in it.ctx.frame.locals)
    from pyvc.values import VBool
    engine.spec_funcs['bound'] = VFunc(f_bound, 'bound')
    engine.spec_funcs['strict'] = VBool(bool(strict))
    engine.spec_funcs['bytes_of'] = VFunc(f_bytes_of, 'bytes_of')
    engine.spec_funcs['sp_opts'] = VFunc(f_sp_opts, 'sp_opts')
    engine.spec_funcs['DOTS'] = VConc(z3.Loop(R('.'), 0, 3))
    engine.spec_funcs['NAMES_RE'] = VConc(NAME_RE)
    engine.spec_funcs['OPTS'] = VConc(OPTS)
    engine.spec_funcs['HDR'] = VConc(HDR)
    from pyvc import models as _M
    engine.spec_funcs['BLANK'] = VConc(z3.Star(_M.RE_WS))
    # C03 / C11: a blank line (whitespace only) is skipped, never reported
    # as a malformed header
    c.internal_raises_extra.append(
        (DiffXParseError, 'not_blank', 'not in_re(header, BLANK)'))
    engine.spec_funcs['PAIR'] = VConc(PAIR)
    engine.add(c)
    return c
