"""Call-site contracts of pydiffx.utils.text functions (verified themselves in
the C15 / C16 checks) and the codec vocabulary (A-codec)."""
import z3

from pyvc.verify import (Contract, Box, OneOf, NoneT, Const, Custom, Str,
                         Bytes, Bool, Tup, ListOf)
from pyvc.values import (VStr, VInt, VNone, VBox, VTuple, VFunc, VBool, Val,
                         L_len, L_at, SeqString, SeqCell)
from pyvc import models as M
from pyvc import lists

S = z3.StringVal
F_StripBom = z3.Function('StripBom', z3.StringSort(), z3.StringSort(),
                         z3.StringSort())       # (data, encoding name)
F_Unbordered = z3.Function('Unbordered', z3.StringSort(), z3.BoolSort())
F_NL = z3.Function('NLText', z3.StringSort(), z3.StringSort())  # kind -> text
F_IndentedPrefix = z3.Function('IndentedPrefix', SeqString, z3.IntSort(),
                               z3.StringSort(), z3.StringSort())
F_Guess = z3.Function('GuessKind', z3.StringSort(), z3.StringSort(),
                      z3.StringSort(), z3.StringSort())  # text, nlU, nlD


def enc_nl(enc_e, kind_e):
    """Encoded BOM-free newline of `kind` in codec `enc` (None -> ascii)."""
    return F_StripBom(M.F_Enc(enc_e, F_NL(kind_e)), enc_e)


def nl_axioms(ctx):
    ctx.assume(F_NL(S('unix')) == S('\n'))
    ctx.assume(F_NL(S('dos')) == S('\r\n'))
    ctx.assume(F_Unbordered(S('\n')))
    ctx.assume(F_Unbordered(S('\r\n')))
    # ASCII: encoding is the identity on the newline texts, no BOM
    for t in ('\n', '\r\n'):
        ctx.assume(M.F_Enc(S('ascii'), S(t)) == S(t))
        ctx.assume(F_StripBom(S(t), S('ascii')) == S(t))


def newline_facts(ctx, nl, enc=None):
    """A-codec (checked exhaustively over the platform's codec table by
    the C15 check): the BOM-free encoding of LF / CRLF in any text codec is
    non-empty and unbordered."""
    ctx.assume(z3.Length(nl) > 0)
    ctx.assume(F_Unbordered(nl))
    if enc is not None:
        # stripping is idempotent on an encoded newline (the BOM-free
        # newline does not itself start with a BOM)
        ctx.assume(F_StripBom(nl, enc) == nl)


def is_encoded_newline(e):
    """e is syntactically Enc(codec, LF | CRLF | NLText(kind))."""
    if z3.is_app(e) and e.decl().name() == 'Enc' and e.num_args() == 2:
        t = z3.simplify(e.arg(1))
        if t.eq(z3.simplify(S('\n'))) or t.eq(z3.simplify(S('\r\n'))):
            return True
        if z3.is_app(e.arg(1)) and e.arg(1).decl().name() == 'NLText':
            return True
    return False


def f_EncNL(it, args, kw):
    nl_axioms(it.ctx)
    enc, kind = args
    e = enc.e if isinstance(enc, VStr) else S('ascii')
    k = Val.sval(kind.e) if isinstance(kind, VBox) else kind.e
    return VStr(enc_nl(e, k), True)


def f_NLText(it, args, kw):
    nl_axioms(it.ctx)
    return VStr(F_NL(args[0].e), False)


def f_Unbordered(it, args, kw):
    from pyvc.values import is_concrete_str, concrete_str
    if is_concrete_str(args[0]):
        v = concrete_str(args[0])
        return VBool(len(v) > 0 and not any(
            v[:k] == v[-k:] for k in range(1, len(v))))
    return VBool(F_Unbordered(args[0].e))


def f_IndentedPrefix(it, args, kw):
    c = it.ctx.cell(args[0])
    return VStr(F_IndentedPrefix(c.e, args[1].e, args[2].e), True)


def install_spec(engine):
    sf = engine.spec_funcs
    sf['EncNL'] = VFunc(f_EncNL, 'EncNL')
    sf['NLText'] = VFunc(f_NLText, 'NLText')
    sf['Unbordered'] = VFunc(f_Unbordered, 'Unbordered')
    sf['IndentedPrefix'] = VFunc(f_IndentedPrefix, 'IndentedPrefix')


def register_callsite(engine):
    """Contracts used where the text utilities are *called*."""
    install_spec(engine)

    # strip_bom(data, encoding) ------------------------------------------
    def sb_effect(it, b):
        ctx = it.ctx
        data, enc = b['data'], b['encoding']
        if isinstance(enc, VBox):
            from pyvc.symex import unbox_choose
            enc = unbox_choose(ctx, enc)
        if enc is VNone:
            return data
        r = F_StripBom(data.e, enc.e)
        if is_encoded_newline(data.e) and data.e.arg(0).eq(enc.e):
            newline_facts(ctx, r, enc.e)
        return VStr(r, True)
    engine.add(Contract(
        'pydiffx.utils.text.strip_bom',
        params={'data': Bytes(), 'encoding': Box()},
        call_effect=sb_effect,
        ensures=[('suffix', 'data.endswith(result)')],
        raises={},
    ))

    # guess_line_endings(text, encoding) -----------------------------------
    def gl_effect(it, b):
        ctx = it.ctx
        nl_axioms(ctx)
        text, enc = b['text'], b['encoding']
        from pyvc.symex import unbox_choose
        if isinstance(text, VBox):
            text = unbox_choose(ctx, text)
        if isinstance(enc, VBox):
            enc = unbox_choose(ctx, enc)
        d = ctx.choose(2)
        kind = VStr('unix' if d == 0 else 'dos', False)
        if text.b:
            e = enc.e if isinstance(enc, VStr) else S('ascii')
            nl = VStr(enc_nl(e, kind.e), True)
            newline_facts(ctx, nl.e, e)
            nlU, nlD = enc_nl(e, S('unix')), enc_nl(e, S('dos'))
        else:
            nl = VStr(F_NL(kind.e), False)
            nlU, nlD = S('\n'), S('\r\n')
        ctx.assume(kind.e == F_Guess(text.e, nlU, nlD))
        return VTuple([kind, nl])
    engine.add(Contract(
        'pydiffx.utils.text.guess_line_endings',
        params={'text': Box(), 'encoding': Box()},
        requires=[('encoding_type', 'encoding is None or '
                                    'isinstance(encoding, str)')],
        call_effect=gl_effect,
        raises={LookupError: None, UnicodeError: None},
    ))

    # split_lines(data, newline, keep_ends) for an abstract newline ---------
    def sl_effect(it, b):
        ctx = it.ctx
        data, nl, keep = b['data'], b['newline'], b['keep_ends']
        L = lists.fresh_list(ctx, SeqString, 'lines')
        ctx.assume(L_len(L) >= 1)
        return ctx.alloc(SeqCell(L, 'bytes'))
    engine.add(Contract(
        'pydiffx.utils.text.split_lines',
        params={'data': Bytes(), 'newline': Bytes(), 'keep_ends': Bool()},
        requires=[('nonempty', 'len(data) > 0'),
                  ('newline_nonempty', 'len(newline) > 0'),
                  ('unbordered', 'Unbordered(newline)')],
        call_effect=sl_effect,
        ensures=[
            ('lossless', 'implies(keep_ends, ConcatAll(result) == data)'),
            ('count', 'len(result) == Count(data, newline) + '
                      '(0 if data.endswith(newline) else 1)'),
            ('terminated', 'implies(keep_ends, forall(lambda j: implies('
                           'j < len(result) - 1 or data.endswith(newline), '
                           'result[j].endswith(newline)), 0, len(result)))'),
        ],
        raises={},
    ))
