"""Contract of DiffXReader._read_content as used at its call sites (the
function itself is verified against it in props/C07 / C08)."""
import z3

from pyvc.verify import (Contract, Obj, Stream, Int, Box, OneOf, NoneT, Const,
                         Bool, Str, Bytes)
from pyvc.values import VStr, VInt

NAME = 'pydiffx.reader.DiffXReader._read_content'


def ghost(it, env):
    cell = it.ctx.cell(it.getattr(env['self'], '_fp'))
    return {'data': VStr(cell.data, True), 'pos0': VInt(cell.pos)}


def register(engine):
    from pyvc import extract
    DiffXParseError = extract.load_module('pydiffx.errors')[0].DiffXParseError
    c = Contract(
        NAME,
        params={
            'self': Obj('pydiffx.reader.DiffXReader', _fp=Stream(),
                        _linenum=Int()),
            'length': Int(),
            'encoding': Box(), 'indent': Box(), 'line_endings': Box(),
            'preserve_trailing_newline': Bool(), 'keep_bytes': Bool(),
        },
        ghost=ghost,
        requires=[
            ('length_int', 'isinstance(length, int)'),
            ('length_range', '0 <= length and length <= 9223372036854775807'),
            ('encoding_type', 'encoding is None or isinstance(encoding, str)'),
            ('indent_type', 'indent is None or '
                            '(isinstance(indent, int) and indent >= 0)'),
        ],
        modifies=['self._fp.pos', 'self._linenum'],
        result=OneOf(Str(), Bytes()),
        ensures=[
            # exactly `length` bytes are consumed (fewer only at end of data)
            ('consumed', 'stream_pos(self._fp) == '
                         '(pos0 + length if pos0 + length <= len(data) '
                         'else len(data))'),
            ('linenum_mono', 'self._linenum >= old(self._linenum)'),
            ('data_frame', 'stream_data(self._fp) == data'),
        ],
        raises={DiffXParseError: 'exc_linenum == old(self._linenum)'},
        exc_attrs={DiffXParseError: {'linenum': Int(), 'column': Box()}},
    )
    engine.add(c)
    return c
