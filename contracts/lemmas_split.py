"""Lemmas about bytes.split and regular languages used by the _read_header
contract (C11).  Each function returns a list of (id, assertions, text):
the assertions must be unsatisfiable.

Definitional (cons-style) unfolding of split on a separator `sep`
(A-bytes, differential-tested):
    sep not in s            ->  split(s) == [s]
    s == a + sep + r, sep not in a (first occurrence)
                            ->  split(s) == [a] + split(r)
The induction over the length of s is the standard structural one; its
base case and step are the SMT obligations below.
"""
import z3

from pyvc.values import L_len, L_at, SeqString
from contracts import reader_header as RH

S = z3.StringVal
SEP = S(', ')


ANY = z3.Star(z3.AllChar(z3.ReSort(z3.StringSort())))
NOSEP = z3.Complement(z3.Concat(ANY, z3.Re(SEP), ANY))   # no ", " inside


def star_of(P):
    return z3.Concat(P, z3.Star(z3.Concat(z3.Re(SEP), P)))


def split_factors(name, P):
    """s in P(, P)*  =>  every element of s.split(', ') is in P."""
    s, a, r = z3.Strings('s a r')
    PS = star_of(P)
    L, Lr = z3.Consts('L Lr', SeqString)
    j0 = z3.Int('j0')
    out = []
    out.append(('split_factors[%s].base' % name,
                [z3.InRe(s, PS), z3.InRe(s, NOSEP),
                 z3.Not(z3.InRe(s, P))],
                'a string of P(, P)* without ", " is in P'))
    out.append(('split_factors[%s].step_head' % name,
                [z3.InRe(s, PS), s == z3.Concat(a, SEP, r),
                 z3.InRe(a, NOSEP),
                 z3.Not(z3.And(z3.InRe(a, P), z3.InRe(r, PS)))],
                'first piece is in P and the rest is again in P(, P)*'))
    # induction wrapper over the list structure
    out.append(('split_factors[%s].induction' % name,
                [L_len(L) == L_len(Lr) + 1, L_at(L, 0) == a, z3.InRe(a, P),
                 z3.Implies(z3.And(j0 - 1 >= 0, j0 - 1 < L_len(Lr)),
                            L_at(L, j0) == L_at(Lr, j0 - 1)),     # unfolding
                 z3.Implies(z3.And(j0 - 1 >= 0, j0 - 1 < L_len(Lr)),
                            z3.InRe(L_at(Lr, j0 - 1), P)),        # IH
                 j0 >= 0, j0 < L_len(L),
                 z3.Not(z3.InRe(L_at(L, j0), P))],
                'elements of [a] + split(r) are in P given the hypothesis '
                'for split(r)'))
    return out


def join_factors(name, P):
    """all elements of s.split(', ') in P  =>  s in P(, P)*."""
    s, a, r = z3.Strings('s a r')
    PS = star_of(P)
    return [
        ('join_factors[%s].base' % name,
         [z3.InRe(s, P), z3.Not(z3.InRe(s, PS))],
         'a single element of P is in P(, P)*'),
        ('join_factors[%s].step' % name,
         [s == z3.Concat(a, SEP, r), z3.InRe(a, P), z3.InRe(r, PS),
          z3.Not(z3.InRe(s, PS))],
         'a + ", " + r with a in P and r in P(, P)* is in P(, P)*'),
    ]


def header_lemmas():
    l, n, o, h = z3.Strings('l n o h')
    DOTS = z3.Loop(z3.Re(S('.')), 0, 3)
    out = []
    out.append(('hdr_compose.with_options',
                [z3.InRe(l, DOTS), z3.InRe(n, RH.NAME_RE),
                 z3.InRe(o, RH.OPTS),
                 z3.Not(z3.InRe(z3.Concat(S('#'), l, n, S(': '), o),
                                RH.HDR))],
                'pieces of the grammar compose to a header of the grammar'))
    out.append(('hdr_compose.without_options',
                [z3.InRe(l, DOTS), z3.InRe(n, RH.NAME_RE),
                 z3.Not(z3.InRe(z3.Concat(S('#'), l, n, S(':')), RH.HDR))],
                'same, no options'))
    out.append(('hdr_unique_options',
                [z3.InRe(z3.Concat(S('#'), l, n, S(': '), o), RH.HDR),
                 z3.InRe(l, DOTS), z3.InRe(n, RH.NAME_RE),
                 z3.Not(z3.InRe(o, RH.OPTS))],
                'the options part of a header of the grammar is in OPTS'))
    out.append(('hdr_no_trailing_newline',
                [z3.InRe(h, RH.HDR), z3.Contains(h, S('\n'))],
                'no header of the grammar contains a newline'))
    # the code's per-pair language Q contains PAIR, and PAIR = KEY=VALUE
    p = z3.String('p')
    Q = RH.code_pair_lang(None)
    out.append(('pair_in_Q', [z3.InRe(p, RH.PAIR), z3.Not(z3.InRe(p, Q))],
                'every grammar pair passes the header regex\'s pair part'))
    return out


def all_lemmas():
    Q = RH.code_pair_lang(None)
    return (split_factors('Q', Q) + split_factors('PAIR', RH.PAIR)
            + join_factors('PAIR', RH.PAIR) + header_lemmas())
