"""Contracts of pydiffx.utils.text.{strip_bom, get_newline_for_type,
guess_line_endings} - verified themselves (C15)."""
import codecs

import z3

from pyvc.verify import (Contract, Box, OneOf, NoneT, Const, Custom, Str,
                         Bytes, Bool, Tup)
from pyvc.values import (VStr, VInt, VNone, VBox, VTuple, VFunc, VBool, Val,
                         is_concrete_str, concrete_str)
from pyvc import models as M
from contracts import text_utils as T

S = z3.StringVal
T_STRIP = 'pydiffx.utils.text.strip_bom'
T_NEWLINE = 'pydiffx.utils.text.get_newline_for_type'
T_GUESS = 'pydiffx.utils.text.guess_line_endings'

# The byte-order marks a codec may put in front of encoded text, keyed by the
# codec's canonical name (specification side; encodings.rst + C15).
BOMSPEC = {
    'utf-8': [codecs.BOM_UTF8],
    'utf-8-sig': [codecs.BOM_UTF8],
    'utf-16': [codecs.BOM_UTF16_BE, codecs.BOM_UTF16_LE],
    'utf-16-le': [codecs.BOM_UTF16_LE],
    'utf-16-be': [codecs.BOM_UTF16_BE],
    'utf-32': [codecs.BOM_UTF32_BE, codecs.BOM_UTF32_LE],
    'utf-32-le': [codecs.BOM_UTF32_LE],
    'utf-32-be': [codecs.BOM_UTF32_BE],
}


def b2s(b):
    return S(b.decode('latin-1'))


def spec_strip(data, canon):
    """SpecStrip(data, canonical codec name) as a z3 term."""
    out = data
    for name in sorted(BOMSPEC, reverse=True):
        boms = BOMSPEC[name]
        hit = z3.Or([z3.PrefixOf(b2s(b), data) for b in boms])
        ln = len(boms[0])
        stripped = z3.SubString(data, ln, z3.Length(data) - ln)
        out = z3.If(canon == S(name), z3.If(hit, stripped, data), out)
    return out


def f_spec_strip(it, args, kw):
    data, enc = args
    if enc is VNone:
        return data
    if isinstance(enc, VBox):
        e = enc.e
        return VStr(z3.If(Val.is_StrV(e), z3.If(
            M.F_CodecKnown(Val.sval(e)),
            spec_strip(data.e, M.F_Canon(Val.sval(e))),
            spec_strip(data.e, Val.sval(e))), data.e), True)
    for key in BOMSPEC:
        # the table's keys are canonical names of known codecs
        it.ctx.assume(M.F_CodecKnown(S(key)))
        it.ctx.assume(M.F_Canon(S(key)) == S(key))
    canon = M.F_Canon(enc.e)
    if is_concrete_str(enc):
        try:
            canon = S(codecs.lookup(concrete_str(enc)).name)
            return VStr(spec_strip(data.e, canon), True)
        except LookupError:
            return VStr(spec_strip(data.e, enc.e), True)
    return VStr(z3.If(z3.Length(enc.e) == 0, data.e,
                      z3.If(M.F_CodecKnown(enc.e),
                            spec_strip(data.e, canon),
                            spec_strip(data.e, enc.e))), True)


def register_strip(engine):
    T.install_spec(engine)
    engine.spec_funcs['SpecStrip'] = VFunc(f_spec_strip, 'SpecStrip')
    engine.add(Contract(
        T_STRIP,
        params={'data': Bytes(),
                'encoding': OneOf(NoneT(), Str())},
        ensures=[
            # the result is a function of the data and the codec's CANONICAL
            # name only: every spelling of a codec behaves alike
            ('by_canonical_name',
             'result == SpecStrip(old(data), old(encoding))'),
            ('suffix', 'old(data).endswith(result)'),
        ],
        raises={},
    ))


def register_newline(engine):
    T.register_callsite(engine)     # strip_bom as a callee
    engine.add(Contract(
        T_NEWLINE,
        params={'line_endings': Box(), 'encoding': OneOf(NoneT(), Str())},
        ensures=[
            ('kind_valid', 'line_endings in ("dos", "unix")'),
            ('value', 'result == EncNL(old(encoding), line_endings)'),
        ],
        raises={UnicodeError: None, LookupError: None,
                ValueError: 'line_endings not in ("dos", "unix")'},
    ))


def register_guess(engine):
    T.register_callsite(engine)
    engine.add(Contract(
        T_GUESS,
        params={'text': OneOf(Bytes(), Str()),
                'encoding': OneOf(NoneT(), Str())},
        ensures=[
            ('kind', 'result[0] in ("dos", "unix")'),
            ('newline_bytes', 'implies(isinstance(text, bytes), result[1] == '
                              'EncNL(encoding, result[0]))'),
            ('newline_text', 'implies(isinstance(text, str), result[1] == '
                             'NLText(result[0]))'),
            # first-line detection (section-format.rst): DOS iff the text up
            # to and including the first UNIX newline ends with the DOS one
            ('first_line', 'iff(result[0] == "dos", first_line_is_dos('
                           'text, encoding))'),
        ],
        raises={LookupError: None, UnicodeError: None},
    ))

    def f_first_line_is_dos(it, args, kw):
        T.nl_axioms(it.ctx)
        text, enc = args
        if text.b:
            e = enc.e if isinstance(enc, VStr) else S('ascii')
            u, d = T.enc_nl(e, S('unix')), T.enc_nl(e, S('dos'))
        else:
            u, d = S('\n'), S('\r\n')
        i = z3.IndexOf(text.e, u, 0)
        upto = z3.SubString(text.e, 0, i + z3.Length(u))
        return VBool(z3.And(i >= 0, z3.SuffixOf(d, upto)))
    engine.spec_funcs['first_line_is_dos'] = VFunc(f_first_line_is_dos,
                                                   'first_line_is_dos')
