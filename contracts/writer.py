"""Contracts of the streaming writer's public methods (C09, C04 writer side,
C02 header part).  The private helpers _build_section, _validate_section,
_new_container_section, _new_content_section, _write_section_header and the
two properties are *inlined* (their real ASTs are executed at the call sites);
_prepare_content has its own contract.

Object invariant WF(w), for the previously written section `prev`:
    len(_stack) - 1 == CONTAINER_DEPTH(prev)
    _stack[j+1]['encoding'] == eff[j]      (ghost: effective encodings)
State is forked over the ten values of `prev` so that the stack has a concrete
shape on every path.
"""
import z3

from pyvc.verify import (Contract, Obj, Stream, Int, Box, OneOf, NoneT, Const,
                         Custom, Str, Bytes, Bool, Tup, SymDict)
from pyvc.values import (L_len, L_at, VStr, VInt, VNone, VBox, VRef, VTuple, VConc, VFunc,
                         VBool, DictCell, ListCell, ObjCell, StreamCell, Val,
                         box, is_concrete_str, concrete_str, Unsupported)
from specs import sections as SP

QN = 'pydiffx.writer.DiffXWriter.'
# set by the C05 check before registering (see register_prepare)
INDENT_VALID = False
S = z3.StringVal
PREVS = list(SP.NINE)   # after construction the main header is written

INLINE = ['_build_section', '_validate_section', '_new_container_section',
          '_new_content_section', '_write_section_header',
          '_cur_section_level', '_cur_encoding']


def enc_spec():
    """An encoding held on the stack: a non-empty str (the constructor
    argument or a container's own/inherited encoding)."""
    def make(it, name):
        e = it.ctx.fresh_str(name)
        it.ctx.assume(z3.Length(e) > 0)
        return VStr(e, False)
    return Custom(make)


def writer_spec(only_prev=None):
    def make(it, name):
        ctx = it.ctx
        alts = PREVS if only_prev is None else [only_prev]
        d = ctx.choose(len(alts))
        prev = alts[d]
        depth = SP.CONTAINER_DEPTH[prev]
        cls = it.engine.resolve_class('pydiffx.writer.DiffXWriter')
        fp = Stream('w').make(it, 'out')
        frames = []
        eff = []
        for j in range(depth + 1):
            v = enc_spec().make(it, 'stack%d' % j)
            frames.append(ctx.alloc(DictCell({'encoding': v})))
            if j:
                eff.append(v)
        cell = ObjCell(cls, {
            'fp': fp,
            '_stack': ctx.alloc(ListCell(frames)),
            '_prev_section': VNone if prev == SP.START else VStr(prev, False),
        })
        ctx.ghost['prev'] = prev
        ctx.ghost['eff'] = eff
        ctx.ghost['ctor_enc'] = ctx.cell(frames[0]).items['encoding']
        return ctx.alloc(cell)
    return Custom(make)


def ghost(it, env):
    w = it.ctx.cell(env['self'])
    fp = it.ctx.cell(w.attrs['fp'])
    from pyvc import lists
    from pyvc.values import SeqCell, SeqString
    md = env.get('metadata')
    if isinstance(md, VRef) and isinstance(it.ctx.cell(md), DictCell):
        c = it.ctx.cell(md)
        it.ctx.ghost['metadata0'] = (md.ref, dict(c.items), c.sym)
    return {'out0': VStr(fp.data, True),
            # placeholder until the indentation loop names its line list
            'lines_g': it.ctx.alloc(SeqCell(
                lists.fresh_list(it.ctx, SeqString, 'nolines'), 'bytes'))}


def opt_encoding():
    """encoding argument: None or a non-empty str."""
    return OneOf(NoneT(), enc_spec())


# --- specification side -----------------------------------------------------
def f_stack_matches(it, args, kw):
    """stack_matches(self, target, own): the level stack after writing the
    container `target` with own encoding `own` equals the specification's
    effective-encoding list:  eff' = eff[:L] + [own or eff[L-1] or ctor]."""
    ctx = it.ctx
    w = ctx.cell(args[0])
    target = concrete_str(args[1])
    own = args[2]
    L = SP.CONTAINERS[target]
    eff = list(ctx.ghost['eff'])
    parent = eff[L - 1] if L > 0 else ctx.ghost['ctor_enc']
    if own is VNone:
        top = parent
    else:
        top = own
    neweff = eff[:L] + [top]
    stack = ctx.cell(w.attrs['_stack'])
    if not isinstance(stack, ListCell) or len(stack.items) != len(neweff) + 1:
        return VBool(False)
    conj = [box(ctx.cell(stack.items[0]).items['encoding'])
            == box(ctx.ghost['ctor_enc'])]
    for j, e in enumerate(neweff):
        conj.append(box(ctx.cell(stack.items[j + 1]).items['encoding'])
                    == box(e))
    return VBool(z3.And(conj))


def f_state_unchanged(it, args, kw):
    """state_unchanged(self): stack, prev and output as on entry."""
    ctx = it.ctx
    w = ctx.cell(args[0])
    snap = ctx.ghost['entry_state']
    stack = ctx.cell(w.attrs['_stack'])
    if len(stack.items) != len(snap['stack']):
        return VBool(False)
    conj = []
    for ref, (r0, e0) in zip(stack.items, snap['stack']):
        if ref.ref != r0:
            return VBool(False)
        conj.append(box(ctx.cell(ref).items['encoding']) == box(e0))
    from pyvc.symex import eq
    conj.append(eq(ctx, w.attrs['_prev_section'], snap['prev']))
    conj.append(ctx.cell(w.attrs['fp']).data == snap['out'])
    return VBool(z3.And(conj))


def snapshot_state(it, env):
    ctx = it.ctx
    w = ctx.cell(env['self'])
    stack = ctx.cell(w.attrs['_stack'])
    ctx.ghost['entry_state'] = {
        'stack': [(r.ref, ctx.cell(r).items['encoding'])
                  for r in stack.items],
        'prev': w.attrs['_prev_section'],
        'out': ctx.cell(w.attrs['fp']).data,
    }


def f_may_follow(it, args, kw):
    prev = it.ctx.ghost['prev']
    return VBool(concrete_str(args[0]) in SP.MAY_FOLLOW[prev])


def f_prev_is(it, args, kw):
    from pyvc.symex import eq
    w = it.ctx.cell(args[0])
    return VBool(eq(it.ctx, w.attrs['_prev_section'], args[1]))


def f_out(it, args, kw):
    w = it.ctx.cell(args[0])
    return VStr(it.ctx.cell(w.attrs['fp']).data, True)


def f_render_header(it, args, kw):
    """RenderHeader(id, **opts): '#' id ':' [' ' k=v (', ' k=v)*] '\\n' with
    keys ascending and None values dropped (specification serializer)."""
    sid = concrete_str(args[0])
    parts = [S('#' + sid + ':')]
    any_before = z3.BoolVal(False)
    from pyvc.models import int_to_str
    for k in sorted(kw):
        v = kw[k]
        if v is VNone:
            continue
        if isinstance(v, VStr):
            present, txt = z3.BoolVal(True), v.e
        elif isinstance(v, VInt):
            present, txt = z3.BoolVal(True), int_to_str(v.e)
        elif isinstance(v, VBox):
            present = z3.Not(Val.is_NoneV(v.e))
            txt = z3.If(Val.is_IntV(v.e), int_to_str(Val.ival(v.e)),
                        Val.sval(v.e))
        else:
            raise Unsupported('header option value %r' % (v,))
        piece = z3.Concat(z3.If(any_before, S(', '), S(' ')), S(k + '='), txt)
        parts.append(z3.If(present, piece, S('')))
        any_before = z3.Or(any_before, present)
    parts.append(S('\n'))
    return VStr(z3.Concat(*parts), True)


def register(engine, only_prev=None, own_prepare=False):
    from pyvc import extract
    errs = extract.load_module('pydiffx.errors')[0]
    for n in INLINE:
        engine.inline.add(QN + n)
    sf = engine.spec_funcs
    sf['stack_matches'] = VFunc(f_stack_matches, 'stack_matches')
    sf['state_unchanged'] = VFunc(f_state_unchanged, 'state_unchanged')
    sf['may_follow'] = VFunc(f_may_follow, 'may_follow')
    sf['prev_is'] = VFunc(f_prev_is, 'prev_is')
    sf['out'] = VFunc(f_out, 'out')
    sf['RenderHeader'] = VFunc(f_render_header, 'RenderHeader')

    def container(method, target):
        c = Contract(
            QN + method,
            params={'self': writer_spec(only_prev),
                    'encoding': opt_encoding()},
            ghost=ghost,
            setup=snapshot_state,
            ensures=[
                ('accepted_legal', 'may_follow("%s")' % target),
                ('prev', 'prev_is(self, "%s")' % target),
                ('stack', 'stack_matches(self, "%s", encoding)' % target),
                ('bytes', 'out(self) == out0 + RenderHeader("%s", '
                          'encoding=encoding)' % target),
            ],
            raises={
                # rejected exactly when the hierarchy forbids it; any
                # rejection leaves stack, prev and output untouched
                errs.DiffXSectionOrderError:
                    'not may_follow("%s") and state_unchanged(self)' % target,
                UnicodeEncodeError: 'state_unchanged(self)',
            },
        )
        engine.add(c)
        return c
    container('new_change', '.change')
    container('new_file', '..file')

    # ---- constructor ----------------------------------------------------
    def f_ctor_state(it, args, kw):
        ctx = it.ctx
        w = ctx.cell(args[0])
        enc = args[1]
        stack = ctx.cell(w.attrs['_stack'])
        if len(stack.items) != 2:
            return VBool(False)
        from pyvc.symex import eq
        return VBool(z3.And(
            [eq(ctx, ctx.cell(r).items['encoding'], enc)
             for r in stack.items]
            + [eq(ctx, w.attrs['_prev_section'], VStr('diffx', False))]))

    def f_fp_data(it, args, kw):
        return VStr(it.ctx.cell(args[0]).data, True)
    sf['ctor_state'] = VFunc(f_ctor_state, 'ctor_state')
    sf['fp_data'] = VFunc(f_fp_data, 'fp_data')
    engine.add(Contract(
        QN + '__init__',
        params={'self': Obj('pydiffx.writer.DiffXWriter'),
                'fp': Stream('w'), 'encoding': enc_spec(), 'version': Box()},
        ghost=lambda it, env: {
            'out0': VStr(it.ctx.cell(env['fp']).data, True)},
        ensures=[
            ('state', 'ctor_state(self, encoding)'),
            ('bytes', 'fp_data(fp) == out0 + RenderHeader("diffx", '
                      'encoding=encoding, version=version)'),
            ('version_ok', 'version in ("1.0",)'),
        ],
        raises={errs.DiffXOptionValueChoiceError:
                'version not in ("1.0",) and fp_data(fp) == out0',
                UnicodeEncodeError: 'fp_data(fp) == out0'},
    ))

    if own_prepare:
        register_prepare(engine, only_prev)
        return engine

    # ---- _prepare_content as seen from its call site -------------------
    def prep_effect(it, bound):
        ctx = it.ctx
        block = VStr(ctx.fresh_str('block'), True)
        ctx.assume(z3.Length(block.e) > 0)
        le = bound['line_endings']
        if le is VNone:
            d = ctx.choose(2)
            le = VStr('unix' if d == 0 else 'dos', False)
        ctx.ghost['prepared'] = (block, le)
        ctx.ghost['prepare_args'] = dict(bound)
        return VTuple([block, le])
    pc = Contract(
        QN + '_prepare_content',
        params={'self': writer_spec(only_prev), 'content': Box(),
                'indent': Box(), 'line_endings': Box(), 'encoding': Box(),
                'inherit_encoding': Bool()},
        call_effect=prep_effect,
        # pure with respect to the writer and the stream: no `modifies`
        raises={errs.DiffXContentError: 'not content',
                errs.DiffXOptionValueChoiceError:
                    'line_endings is not None and '
                    'line_endings not in ("dos", "unix")',
                errs.DiffXOptionValueError:
                    'indent is not None and indent < 0',
                LookupError: None, UnicodeError: None, TypeError: None,
                OverflowError: None, MemoryError: None,
                AssertionError: None},
    )
    pc.raises_iff = [errs.DiffXContentError,
                     errs.DiffXOptionValueChoiceError,
                     errs.DiffXOptionValueError]
    engine.add(pc)

    def f_prepared(it, args, kw):
        return it.ctx.ghost['prepared'][0]

    def f_prepared_le(it, args, kw):
        return it.ctx.ghost['prepared'][1]

    def f_target(it, args, kw):
        prev = it.ctx.ghost['prev']
        return VStr('.' * SP.CONTAINER_DEPTH[prev] + concrete_str(args[0]),
                    False)

    def f_may_follow_t(it, args, kw):
        prev = it.ctx.ghost['prev']
        t = '.' * SP.CONTAINER_DEPTH[prev] + concrete_str(args[0])
        return VBool(t in SP.MAY_FOLLOW[prev])

    def f_prev_is_t(it, args, kw):
        from pyvc.symex import eq
        w = it.ctx.cell(args[0])
        t = f_target(it, [args[1]], {})
        return VBool(eq(it.ctx, w.attrs['_prev_section'], t))

    def f_stack_same(it, args, kw):
        ctx = it.ctx
        w = ctx.cell(args[0])
        snap = ctx.ghost['entry_state']
        stack = ctx.cell(w.attrs['_stack'])
        if len(stack.items) != len(snap['stack']):
            return VBool(False)
        conj = [z3.BoolVal(True)]
        for ref, (r0, e0) in zip(stack.items, snap['stack']):
            if ref.ref != r0:
                return VBool(False)
            conj.append(box(ctx.cell(ref).items['encoding']) == box(e0))
        return VBool(z3.And(conj))

    def f_passed_encoding_ok(it, args, kw):
        """C04 (writer side): the encoding handed to the content
        preparation is the section's own one; inheritance is requested
        exactly for preamble/meta sections."""
        pa = it.ctx.ghost['prepare_args']
        own = args[0]
        want_inherit = concrete_str(args[1]) != 'diff'
        from pyvc.symex import eq
        return VBool(z3.And(eq(it.ctx, pa['encoding'], own),
                            pa['inherit_encoding'].e ==
                            z3.BoolVal(want_inherit)))
    def f_dict_unchanged(it, args, kw):
        """C18: the metadata dictionary handed to write_meta is the same
        object with the same items as on entry."""
        md = args[0]
        if not isinstance(md, VRef):
            return VBool(True)
        ref0, items0, sym0 = it.ctx.ghost['metadata0']
        c = it.ctx.cell(md)
        if md.ref != ref0 or set(c.items) != set(items0):
            return VBool(False)
        from pyvc.symex import eq
        conj = [eq(it.ctx, c.items[k], items0[k]) for k in items0]
        if (c.sym is None) != (sym0 is None):
            return VBool(False)
        if sym0 is not None:
            conj += [c.sym[0] == sym0[0], c.sym[1] == sym0[1]]
        return VBool(z3.And(conj + [z3.BoolVal(True)]))
    sf['dict_unchanged'] = VFunc(f_dict_unchanged, 'dict_unchanged')
    sf['prepared'] = VFunc(f_prepared, 'prepared')
    sf['prepared_le'] = VFunc(f_prepared_le, 'prepared_le')
    sf['target'] = VFunc(f_target, 'target')
    sf['may_follow_t'] = VFunc(f_may_follow_t, 'may_follow_t')
    sf['prev_is_t'] = VFunc(f_prev_is_t, 'prev_is_t')
    sf['stack_same'] = VFunc(f_stack_same, 'stack_same')
    sf['passed_encoding_ok'] = VFunc(f_passed_encoding_ok,
                                     'passed_encoding_ok')

    any_reject = {Exception: 'state_unchanged(self)'}

    def content(method, name, params, header_kwargs):
        c = Contract(
            QN + method,
            params=dict({'self': writer_spec(only_prev)}, **params),
            ghost=ghost,
            setup=snapshot_state,
            ensures=[
                ('accepted_legal', 'may_follow_t("%s")' % name),
                ('prev', 'prev_is_t(self, "%s")' % name),
                ('stack', 'stack_same(self)'),
                ('encoding_choice', 'passed_encoding_ok(encoding, "%s")'
                                    % name),
                ('bytes', 'out(self) == out0 + RenderHeader(target("%s"), '
                          '%s) + prepared()' % (name, header_kwargs)),
            ],
            raises=dict(list({
                errs.DiffXSectionOrderError:
                    'not may_follow_t("%s") and state_unchanged(self)' % name,
            }.items()) + list(any_reject.items())),
        )
        engine.add(c)
        return c
    content('write_preamble', 'preamble',
            {'text': Box(), 'encoding': opt_encoding(),
             'indent': OneOf(NoneT(), Int()),
             'line_endings': Box(), 'mimetype': Box()},
            'encoding=encoding, indent=indent, length=len(prepared()), '
            'line_endings=prepared_le(), mimetype=mimetype')
    content('write_meta', 'meta',
            {'metadata': OneOf(SymDict(), NoneT(), Str()),
             'encoding': opt_encoding(), 'meta_format': Box(),
             'line_endings': OneOf(NoneT(), Const('unix'), Const('dos'),
                                   Str())},
            'encoding=encoding, format=meta_format, '
            'length=len(prepared()), line_endings=line_endings'
            ).ensures.append(('arg_unchanged', 'dict_unchanged(metadata)'))
    content('write_diff', 'diff',
            {'content': Box(), 'diff_type': Box(),
             'encoding': opt_encoding(), 'line_endings': Box()},
            'encoding=encoding, length=len(prepared()), '
            'line_endings=prepared_le(), type=diff_type')
    return engine


def register_prepare(engine, only_prev=None):
    """_prepare_content verified against the specification's `Prepare`."""
    from pyvc import extract
    from contracts import text_utils as T
    errs = extract.load_module('pydiffx.errors')[0]
    T.register_callsite(engine)

    def loop_prepare(it):
        ctx = it.ctx
        fr = ctx.frame
        lines = ctx.cell(fr.locals['lines'])
        ind = fr.locals['indent_str']
        ctx.ghost_env['lines_g'] = fr.locals['lines']
        # definitional unfolding of IndentedPrefix at 0
        ctx.assume(T.F_IndentedPrefix(lines.e, z3.IntVal(0), ind.e) == S(''))

    def loop_head(it):
        ctx = it.ctx
        fr = ctx.frame
        lines = ctx.cell(fr.locals['lines'])
        ind = fr.locals['indent_str']
        k = z3.Int('unfold_k')
        ctx.assume_forall(k, z3.Implies(
            z3.And(k >= 0, k < L_len(lines.e)),
            T.F_IndentedPrefix(lines.e, k + 1, ind.e) == z3.Concat(
                T.F_IndentedPrefix(lines.e, k, ind.e), ind.e,
                L_at(lines.e, k))))

    c = Contract(
        QN + '_prepare_content',
        params={'self': writer_spec(only_prev),
                'content': OneOf(Str(), Bytes(), NoneT(), Int()),
                'indent': OneOf(NoneT(), Int()),
                'line_endings': Box(),
                'encoding': opt_encoding(),
                'inherit_encoding': Bool()},
        ghost=ghost,
        setup=snapshot_state,
        loops={0: dict(
            prepare=loop_prepare, at_head=loop_head, index='_k',
            havoc=['stream.data', 'stream.pos'],
            invariant=[('indented', 'stream_data(stream) == '
                                    'IndentedPrefix(lines, _k, indent_str)'),
                       ('grows', 'len(stream_data(stream)) >= _k')],
        )},
        ensures=[
            ('pure', 'state_unchanged(self)'),
        ] + ([
            # C05 only (C01/C02 quantify over indent >= 0 and say nothing
            # about other values): a block is only produced for an
            # indentation the reader accepts
            ('indent_valid', 'indent is None or indent >= 0'),
        ] if INDENT_VALID else []) + [
            ('nonempty', 'len(result[0]) > 0'),
            ('kind', 'result[1] in ("unix", "dos") and '
                     '(line_endings is None or result[1] == line_endings)'),
        ],
        internal_ensures=[
            # C04 (writer side): which encoding is used
            ('effective_encoding',
             'encoding == (old(encoding) if old(encoding) is not None else '
             '(stack_top_encoding(self) if inherit_encoding else None))'),
            # C02: the block ends in the newline; indentation after encoding
            ('ends_with_newline', 'content.endswith(newline)'),
            ('no_indent', 'implies(not indent, result[0] == content)'),
            ('indent_every_line',
             'implies(indent, result[0] == IndentedPrefix(lines_g, '
             'len(lines_g), indent_str) and '
             'ConcatAll(lines_g) == content)'),
        ],
        raises={errs.DiffXContentError:
                'not old(content) and state_unchanged(self)',
                errs.DiffXOptionValueChoiceError:
                    'line_endings is not None and '
                    'line_endings not in ("dos", "unix") and '
                    'state_unchanged(self)',
                # (base class after its subclass)
                errs.DiffXOptionValueError:
                    'indent is not None and indent < 0 and '
                    'state_unchanged(self)',
                LookupError: 'state_unchanged(self)',
                UnicodeError: 'state_unchanged(self)',
                TypeError: 'state_unchanged(self)',
                AssertionError: 'state_unchanged(self)'},
    )
    engine.add(c)

    def f_top(it, args, kw):
        w = it.ctx.cell(args[0])
        stack = it.ctx.cell(w.attrs['_stack'])
        return it.ctx.cell(stack.items[-1]).items['encoding']
    engine.spec_funcs['stack_top_encoding'] = VFunc(f_top, 'top')
    return c
