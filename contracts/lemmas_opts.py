"""Lemma for C12: the parsed options are a fold over the pairs, and inserting
one pair with a key that no other pair has, at any position, changes the
resulting mapping only at that key.

ParseOpts(X, m+1) = Store(ParseOpts(X, m), K(X[m]), C(X[m]))   (definition)
X = Y with p inserted at position i.   K, C arbitrary functions of a pair.
The three obligations are the base and the two induction steps.
"""
import z3

from pyvc.values import SeqString, L_len, L_at, Val

Elem = z3.StringSort()
K = z3.Function('PairKey', Elem, z3.StringSort())
C = z3.Function('PairVal', Elem, Val)
A = z3.Function('PO', SeqString, z3.IntSort(),
                z3.ArraySort(z3.StringSort(), Val))


def unfold(X, m):
    e = L_at(X, m)
    return A(X, m + 1) == z3.Store(A(X, m), K(e), C(e))


def lemmas():
    X, Y = z3.Consts('X Y', SeqString)
    p = z3.Const('p', Elem)
    i, m = z3.Ints('i m')
    q = z3.String('q')
    out = []
    # prefix step: below the insertion point the folds agree
    out.append(('opts_insert.prefix_step', [
        m >= 0, m < i, L_at(X, m) == L_at(Y, m), A(X, m) == A(Y, m),
        unfold(X, m), unfold(Y, m),
        z3.Not(A(X, m + 1) == A(Y, m + 1))],
        'same pairs below the insertion point give the same mapping'))
    # at the insertion point
    out.append(('opts_insert.at_point', [
        L_at(X, i) == p, A(X, i) == A(Y, i), unfold(X, i),
        z3.Not(A(X, i + 1) == z3.Store(A(Y, i), K(p), C(p)))],
        'the inserted pair adds its key'))
    # suffix step: pointwise characterisation is preserved
    hyp = z3.Select(A(X, m + 1), q) == z3.If(q == K(p), C(p),
                                              z3.Select(A(Y, m), q))
    # hypothesis for all keys: instantiate at q and at the key written now
    kq = K(L_at(Y, m))
    hyp_k = z3.Select(A(X, m + 1), kq) == z3.If(kq == K(p), C(p),
                                                 z3.Select(A(Y, m), kq))
    concl = z3.Select(A(X, m + 2), q) == z3.If(
        q == K(p), C(p), z3.Select(A(Y, m + 1), q))
    out.append(('opts_insert.suffix_step', [
        m >= i, L_at(X, m + 1) == L_at(Y, m), K(L_at(Y, m)) != K(p),
        hyp, hyp_k, unfold(X, m + 1), unfold(Y, m), z3.Not(concl)],
        'later pairs (with other keys) act the same on both mappings'))
    return out
