"""Contract of DiffXReader._read_until (C17).  Sidecar: the repository file is
not touched; the loop is addressed by its ordinal in the function."""
from pyvc.verify import Contract, Obj, Stream, Bytes, Int, Tup, Bool

NAME = 'pydiffx.reader.DiffXReader._read_until'


def ghost(it, env):
    # data / pos0: the stream's content and the position on entry
    cell = it.ctx.cell(it.getattr(env['self'], '_fp'))
    from pyvc.values import VStr, VInt
    return {'data': VStr(cell.data, True), 'pos0': VInt(cell.pos)}


def register(engine):
    engine.add(Contract(
        NAME,
        params={'self': Obj('pydiffx.reader.DiffXReader', _fp=Stream()),
                'c': Bytes(), 'chunk_size': Int()},
        ghost=ghost,
        requires=[('delim1', 'len(c) == 1'),
                  ('chunk_pos', 'chunk_size >= 1'),
                  ('chunk_index_sized', 'chunk_size <= 9223372036854775807')],
        loops={0: dict(
            invariant=[
                ('pos_range', 'pos0 <= stream_pos(fp) and '
                              'stream_pos(fp) <= len(data)'),
                ('buffer', 'stream_data(s) == data[pos0:stream_pos(fp)]'),
                ('no_delim', 'c not in stream_data(s)'),
                ('eof_false', 'eof == False'),
            ],
            havoc=['fp.pos', 's.data', 's.pos'],
            decreases='len(data) - stream_pos(fp)',
        )},
        modifies=['self._fp.pos'],
        result=Tup(Bytes(), Bool()),
        ensures=[
            # whatever the chunk size: the stream is left exactly after the
            # first delimiter at or after the entry position
            ('found_text', 'implies(not result[1], result[0] == '
                           'data[pos0:stream_pos(self._fp)])'),
            ('found_ends', 'implies(not result[1], result[0].endswith(c))'),
            ('found_first', 'implies(not result[1], '
                            'c not in result[0][:-1])'),
            ('found_pos', 'implies(not result[1], pos0 < stream_pos(self._fp)'
                          ' and stream_pos(self._fp) <= len(data))'),
            ('eof_text', 'implies(result[1], result[0] == data[pos0:])'),
            ('eof_pos', 'implies(result[1], '
                        'stream_pos(self._fp) == len(data))'),
            ('eof_nodelim', 'implies(result[1], c not in result[0])'),
            ('data_frame', 'stream_data(self._fp) == data'),
        ],
        raises={},
    ))
