"""Contract of pydiffx.utils.unified_diffs.get_unified_diff_hunks (C14, core
part: exception freedom, error positions, consumed-line count, counters).

The hunk geometry (first/last changed line, context) is covered by the
bounded layer only (DESIGN 5/C14: stretch goal)."""
import z3

from pyvc.verify import (Contract, Bool, ListOf, Box, Int, Custom)
from pyvc.values import (VStr, VInt, VNone, VBox, VRef, VBool, VFunc,
                         DictCell, Val, L_len, L_at)

NAME = 'pydiffx.utils.unified_diffs.get_unified_diff_hunks'


def opt_int(it, name):
    e = it.ctx.fresh(name, Val)
    it.ctx.assume(z3.Or(Val.is_NoneV(e), Val.is_IntV(e)))
    return VBox(e)


def side(it, name):
    ctx = it.ctx
    nlc = ctx.fresh_int(name + '_changed')
    ctx.assume(nlc >= 0)
    return ctx.alloc(DictCell({
        'first_changed_line': opt_int(it, name + '_first'),
        'last_changed_line': opt_int(it, name + '_last'),
        'num_lines': VInt(ctx.fresh_int(name + '_num')),
        'num_lines_changed': VInt(nlc),
        'start_line': VInt(ctx.fresh_int(name + '_start')),
    }))


def at_head(it):
    """Shape of the open-hunk state: either no hunk is open (all three
    locals None) or the three dicts exist with entry['orig'] is orig and
    entry['modified'] is modified."""
    ctx = it.ctx
    fr = ctx.frame
    d = ctx.choose(2)
    if d == 0:
        for n in ('cur_hunk_entry', 'cur_hunk_orig', 'cur_hunk_modified'):
            fr.locals[n] = VNone
    else:
        o = side(it, 'orig')
        m = side(it, 'mod')
        cx = ctx.fresh('context', Val)
        ctx.assume(z3.Or(Val.is_NoneV(cx), Val.is_BytesV(cx)))
        e = ctx.alloc(DictCell({'context': VBox(cx), 'orig': o,
                                'modified': m}))
        fr.locals['cur_hunk_orig'] = o
        fr.locals['cur_hunk_modified'] = m
        fr.locals['cur_hunk_entry'] = e
        ctx.shaped_refs = set(getattr(ctx, 'shaped_refs', ())) | {
            o.ref, m.ref, e.ref}


def register(engine):
    from pyvc import extract
    MH = extract.load_module('pydiffx.errors')[0].MalformedHunkError

    def lines_short(it, env):
        # A-int: CPython refuses int() of more than 4300 digits (ValueError);
        # lines are assumed shorter than that
        ctx = it.ctx
        c = ctx.cell(env['lines'])
        j = ctx.fresh_int('lj')
        ctx.assume_forall(j, z3.Implies(
            z3.And(j >= 0, j < L_len(c.e)),
            z3.Length(L_at(c.e, j)) <= 4300), defaults=[])

    engine.add(Contract(
        NAME,
        params={'lines': ListOf('bytes'), 'ignore_garbage': Bool()},
        setup=lines_short,
        loops={0: dict(
            index='_k',
            shapes={'hunks': ListOf('rec')},
            at_head=at_head,
            invariant=[
                ('closed_at_start',
                 'implies(_k == 0, cur_hunk_entry is None)'),
                ('counters', 'hunk_orig_i >= 0 and hunk_modified_i >= 0'),
                ('totals', 'total_inserts >= 0 and total_deletes >= 0'),
            ],
        )},
        ensures=[
            ('processed_range', '0 <= result["num_processed_lines"] and '
                                'result["num_processed_lines"] <= len(lines)'),
            ('processed_all_when_ignoring',
             'implies(ignore_garbage, '
             'result["num_processed_lines"] == len(lines))'),
            ('totals_nonneg', 'result["total_inserts"] >= 0 and '
                              'result["total_deletes"] >= 0'),
        ],
        raises={MH: 'exc_line_num >= 1 and exc_line_num <= len(lines) and '
                    'exc_line == lines[exc_line_num - 1]'},
    ))
