"""Contract of pydiffx.utils.text.split_lines (C16)."""
import z3

from pyvc.verify import Contract, Bytes, Const, OneOf, ListOf
from pyvc import models as M
from pyvc.values import SeqCell, VStr, L_len, L_at

NAME = 'pydiffx.utils.text.split_lines'

# the newline sequences the library uses (C16's statement): LF, CRLF and their
# UTF-16 / UTF-32 LE / BE encodings
NEWLINES = [
    b'\n', b'\r\n',
    '\n'.encode('utf-16-le'), '\r\n'.encode('utf-16-le'),
    '\n'.encode('utf-16-be'), '\r\n'.encode('utf-16-be'),
    '\n'.encode('utf-32-le'), '\r\n'.encode('utf-32-le'),
    '\n'.encode('utf-32-be'), '\r\n'.encode('utf-32-be'),
]


def unbordered(nl):
    return not any(nl[:k] == nl[-k:] for k in range(1, len(nl)))


assert all(unbordered(n) for n in NEWLINES)


def lemma_instances(it, env, result):
    """Instances of the trusted sequence facts B4/B5 (DESIGN 5/C16) at the
    terms of this path; they are facts about `+`/join, not about the code."""
    ctx = it.ctx
    nl = env['newline'].e
    facts = []
    for (m, src, j, body) in ctx.ghost.get('maps', []):
        n = L_len(m)
        # B4: concat of (x + nl) over S  ==  Join(nl, S) + nl      (|S| >= 1)
        facts.append(z3.Implies(n >= 1, M.F_ConcatAll(m) ==
                                z3.Concat(M.F_Join(nl, src), nl)))
    # B5 (snoc unfolding of ConcatAll) is recorded by the list operations
    # pop / append themselves (pyvc/lists.py)
    return facts


def register(engine, newlines=None):
    nls = newlines or NEWLINES

    def setup(it, env):
        pass

    c = Contract(
        NAME,
        params={'data': Bytes(),
                'newline': OneOf(*[Const(n) for n in nls]),
                'keep_ends': OneOf(Const(True), Const(False))},
        requires=[('nonempty', 'len(data) > 0')],
        ensures=[
            ('count', 'len(result) == Count(data, newline) + '
                      '(0 if data.endswith(newline) else 1)'),
            ('lossless', 'implies(keep_ends, ConcatAll(result) == data)'),
            ('terminated', 'implies(keep_ends, forall(lambda j: implies('
                           'j < len(result) - 1 or data.endswith(newline), '
                           'result[j].endswith(newline) and '
                           'result[j].find(newline) == '
                           'len(result[j]) - len(newline)), 0, len(result)))'),
            ('last_clean', 'implies(keep_ends and not data.endswith(newline),'
                           ' newline not in result[len(result) - 1])'),
            ('modes_agree', 'forall(lambda j: result[j] == '
                            '(Split(data, newline)[j] + newline if keep_ends '
                            'and (j < len(result) - 1 or '
                            'data.endswith(newline)) else '
                            'Split(data, newline)[j]), 0, len(result))'),
            ('modes_len', 'len(result) == len(Split(data, newline)) - '
                          '(1 if data.endswith(newline) else 0)'),
        ],
        raises={},
        result=ListOf('bytes'),
    )
    c.exit_lemmas = lemma_instances
    engine.add(c)
    return c
