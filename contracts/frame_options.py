"""Frame obligation for C12: iter_sections (and what it calls) depend on a
header's options only through the known keys.

Checked on the *generated verification conditions*: in every path condition,
state update and obligation of the function, the symbolic options mapping of
the header record occurs only as  options[<known constant key>]."""
import z3

KNOWN = {'encoding', 'length', 'indent', 'line_endings', 'format', 'version'}


def scan_formula(e, bad, seen):
    stack = [(e, None)]
    while stack:
        x, parent = stack.pop()
        key = (x.get_id(), parent.get_id() if parent is not None else 0)
        if key in seen:
            continue
        seen.add(key)
        if z3.is_app(x):
            d = x.decl()
            if d.kind() == z3.Z3_OP_UNINTERPRETED and x.num_args() == 0 and \
                    d.name().startswith(('options_map', 'options_dom')):
                ok = False
                if parent is not None and z3.is_select(parent) and \
                        parent.arg(0).eq(x):
                    k = z3.simplify(parent.arg(1))
                    if z3.is_string_value(k) and k.as_string() in KNOWN:
                        ok = True
                if not ok:
                    bad.append(str(parent if parent is not None else x)[:200])
            for ch in x.children():
                stack.append((ch, x))
        elif z3.is_quantifier(x):
            stack.append((x.body(), x))


def post_verify(verdict):
    bad = []
    seen = set()
    n = 0
    for ob in verdict.obligations:
        for a in ob.assumptions:
            scan_formula(a, bad, seen)
        scan_formula(ob.goal, bad, seen)
        n += 1
    ok = not bad
    return [('frame.options_only_known_keys', ok,
             'in all %d verification conditions of iter_sections the '
             'options mapping occurs only as options[k] with k in %s'
             % (n, sorted(KNOWN)), {'offending_terms': bad[:5]})]
