"""Contract of DiffXParseError.__init__ (C08: message agrees with the
line/column attributes)."""
from pyvc.verify import Contract, Obj, Int, Str, OneOf, NoneT

NAME = 'pydiffx.errors.DiffXParseError.__init__'


def register(engine):
    engine.add(Contract(
        NAME,
        params={'self': Obj('pydiffx.errors.DiffXParseError'),
                'msg': Str(), 'linenum': Int(),
                'column': OneOf(NoneT(), Int())},
        ensures=[
            ('linenum', 'self.linenum == linenum'),
            ('column', 'self.column == column'),
            ('message', 'self.args[0] == "Error on line %d" % (linenum + 1) '
                        '+ ("" if column is None else ", column %d" % '
                        '(column + 1)) + ": " + msg'),
        ],
        raises={},
    ))
