"""The section hierarchy as the specification states it (oracle for C09/C10).

MAY_FOLLOW is written from docs/spec/section-format.rst ("state tree") and
the hierarchy named in the statements of C09/C10, NOT from the code: per
container "preamble, then metadata, then children"; per file "metadata then
optional diff".  Two places where the published tree and the statements
differ are resolved toward the statements (see DESIGN.md section 4).
"""
START = 'START'
NINE = ['diffx', '.preamble', '.meta', '.change', '..preamble', '..meta',
        '..file', '...meta', '...diff']

MAY_FOLLOW = {
    START: {'diffx'},
    'diffx': {'.preamble', '.meta', '.change'},
    '.preamble': {'.meta', '.change'},
    '.meta': {'.change'},
    '.change': {'..preamble', '..meta', '..file'},
    '..preamble': {'..meta', '..file'},
    '..meta': {'.change', '..file'},
    '..file': {'...meta'},
    '...meta': {'.change', '..file', '...diff'},
    '...diff': {'.change', '..file'},
}

# number of open containers after a section (main = 1, change = 2, file = 3)
CONTAINER_DEPTH = {
    START: 0,
    'diffx': 1, '.preamble': 1, '.meta': 1,
    '.change': 2, '..preamble': 2, '..meta': 2,
    '..file': 3, '...meta': 3, '...diff': 3,
}
CONTAINERS = {'diffx': 0, '.change': 1, '..file': 2}   # id -> 0-based level
CONTENT = [x for x in NINE if x not in CONTAINERS]
LEVEL_OF = {x: len(x) - len(x.lstrip('.')) for x in NINE}
INHERITING = ['.preamble', '.meta', '..preamble', '..meta', '...meta']
