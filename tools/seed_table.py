"""Markdown table of seeded changes vs checks from seeded/RESULTS.json."""
import json
import os

ROOT = os.path.dirname(os.path.dirname(os.path.abspath(__file__)))


def main():
    res = json.load(open(os.path.join(ROOT, 'seeded', 'RESULTS.json')))
    rows = []
    for sid in sorted(res):
        meta = json.load(open(os.path.join(ROOT, 'seeded', sid, 'meta.json')))
        what = (meta.get('needs_to_manifest') or '').strip().split('\n')[0]
        if sid.startswith('fixrevert'):
            what = meta.get('source', '')
        what = what.replace('|', '/')[:150]
        for prop, r in sorted(res[sid].items()):
            kinds = set()
            for v in r['violations']:
                rp = v.split('replay=')[1].split()[0]
                base = os.path.basename(rp)
                if base.startswith('bounded'):
                    kinds.add('bounded layer (replayed input)')
                elif base.startswith('scenario'):
                    kinds.add('scenario obligation')
                elif base.startswith('rule.'):
                    kinds.add('rule-table obligation')
                else:
                    kinds.add('deductive obligation '
                              + base.split('_p')[0][:60])
                if v.endswith('no-failing-input-found'):
                    kinds.add('(no-failing-input-found)')
            verdict = {0: 'MISSED', 1: 'caught', 2: 'undecided only',
                       3: 'checker error'}.get(r['exit'], str(r['exit']))
            rows.append('| %s | %s | %s | %s | %s |' % (
                sid, prop, verdict, '; '.join(sorted(kinds)) or
                ('; '.join(r['undecided'])[:80] if r['undecided'] else '-'),
                what))
    out = ['| change | check | verdict | reported by | what the change does '
           '/ needs |', '|---|---|---|---|---|'] + rows
    open(os.path.join(ROOT, 'seeded', 'SUMMARY.md'), 'w').write(
        '\n'.join(out) + '\n')
    print('\n'.join(out))


if __name__ == '__main__':
    main()
