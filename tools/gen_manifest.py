"""Regenerates MANIFEST.json from the table below (kept next to the checks so
that the claimed level / technique stay in one place)."""
import json
import os

ROOT = os.path.dirname(os.path.dirname(os.path.abspath(__file__)))

PROOF_NOTE = ('Trusted: the home-made pyvc VC generator (A-py) and its builtin '
              'models (differential-tested by setup_cmd), z3/cvc5 soundness, '
              'and the library models named in the evidence file '
              '(coverage.trusted_base).')

CHECKS = {
    'C17': dict(
        category='proof',
        text='All verification conditions of DiffXReader._read_until, '
             'generated from the real AST against a sidecar contract (loop '
             'invariant, variant, frame, both exit paths), are discharged by '
             'cvc5/z3 for every stream, position and block size - the whole '
             'property lives in that function and in its precondition, which '
             'is discharged at its only call site (_read_header); a bounded '
             'whole-reader comparison over paddings, block sizes and CRLF-'
             'header files is a labelled stand-in.',
        design_ref='5/C17',
        technique='contract-based deductive verification: AST->VC symbolic '
                  'execution with loop invariant, discharged by cvc5/z3; '
                  'counter-models replayed on CPython',
        thorough=True),
}

CHECKS['C16'] = dict(
    category='proof',
    text='split_lines is verified against its contract (count, losslessness, '
         'every line terminated exactly once, clean last line, agreement of '
         'the two modes) for every non-empty byte string and each of the 10 '
         'newline sequences the statement names; facts about bytes.split '
         '(B1-B3, B6) are trusted axioms, differential-tested; the '
         'concatenation facts (B4, B5) are proved in Lean 4 on every run. An '
         'exhaustive small-scope enumeration is the labelled bounded stand-in.',
    design_ref='5/C16',
    technique='contract-based deductive verification: AST->VC symbolic '
              'execution with schema-instantiated sequence facts, discharged '
              'by cvc5/z3; the concatenation lemmas the VCs rely on proved '
              'by induction in Lean 4 (kernel-checked on every run)',
    thorough=True)

CHECKS['C10'] = dict(
    category='proof',
    text='The transition table equals the specification table (finite '
         'obligation, exhaustive); _read_header is verified to return only '
         'ids of the valid set and to raise DiffXParseError otherwise; the '
         'main loop of iter_sections carries the inductive invariant '
         'valid_sections == MAY_FOLLOW[last yielded id], so the statement '
         'holds for id sequences of any length. A bounded enumeration of id '
         'sequences through the real reader is the labelled stand-in.',
    design_ref='5/C10',
    technique='contract-based deductive verification: loop invariant over '
              'ghost state updated at each yield, VCs from the real AST, '
              'z3/cvc5; finite table obligation by evaluation',
    thorough=True)

CHECKS['C09'] = dict(
    category='proof',
    text='Each public writer method (constructor, new_change, new_file, '
         'write_preamble, write_meta, write_diff; private helpers inlined) is '
         'verified for each of the nine reachable writer states: accepted => '
         'target may follow (MAY_FOLLOW), order error => it may not, any '
         'exception of any type leaves stack / previous-section / output '
         'unchanged, acceptance appends exactly header + prepared content. '
         'The object invariant makes this hold for call sequences of any '
         'length. A bounded enumeration of call sequences with invalid-'
         'argument variants is the labelled stand-in.',
    design_ref='5/C09',
    technique='contract-based deductive verification: object invariant + '
              'exceptional post-conditions (atomicity) on the real ASTs, '
              'z3/cvc5',
    thorough=True)

CHECKS['C04'] = dict(
    category='proof',
    text='Reader: inductive loop invariant of iter_sections ties the '
         'encoding stack to a ghost list of effective encodings maintained '
         'by the specification rule (own, else nearest ancestor), for '
         'nesting histories of any length; every content read receives own-'
         'or-nearest-ancestor (diff: own only). Writer: object invariant '
         'ties the level stack to the same rule; content calls request '
         'inheritance exactly for preamble/meta and _prepare_content uses '
         'own-or-top-of-stack. A bounded enumeration of histories over three '
         'mutually incompatible encodings is the labelled stand-in.',
    design_ref='5/C04',
    technique='contract-based deductive verification: ghost specification '
              'state + loop/object invariants on the real ASTs, z3/cvc5',
    thorough=True)

CHECKS['C11'] = dict(
    category='proof',
    text='_read_header is verified on every path: acceptance implies the '
         'grammar (loop invariant over the option pairs, join lemma), '
         'rejection implies the line is outside the grammar or its id is not '
         'allowed (uniqueness and split lemmas), options are reported as the '
         'fold over the pairs with integer-valued values converted, and no '
         'exception type other than DiffXParseError can escape. The '
         'regular-language and split lemmas are separate SMT obligations. '
         'An exhaustive small-scope enumeration of header lines is the '
         'labelled bounded stand-in.',
    design_ref='5/C11',
    technique='contract-based deductive verification: regex patterns '
              'translated from the real source, loop invariant + inductive '
              'lemmas, z3 (regex) / cvc5 (strings)',
    thorough=True)

CHECKS['C12'] = dict(
    category='proof',
    text='Parse side: _read_header is verified to report options == '
         'ParseOpts(pairs), a fold over the pairs; an inductive lemma (three '
         'discharged obligations) shows that inserting a pair with a new key '
         'at any position changes that fold only at the new key. Use side: a '
         'frame obligation evaluated over every verification condition of '
         'iter_sections shows its behaviour depends on the options mapping '
         'only through the six known keys, the record carrying the mapping '
         'itself. A randomized insertion test over writer-produced files is '
         'the labelled bounded stand-in.',
    design_ref='5/C12',
    technique='contract-based deductive verification: fold invariant + '
              'insertion lemma (arrays/EUF) + frame obligation over the '
              'generated VCs',
    thorough=True)

CHECKS['C15'] = dict(
    category='proof',
    text='strip_bom, get_newline_for_type and guess_line_endings are '
         'verified for all inputs against contracts in which the encoding '
         'enters only through its canonical name (Canon); the facts about '
         'concrete codecs are finite table obligations evaluated '
         'exhaustively over the platform codec table (every stateless text '
         'codec x spelling variants x unix/dos) against each codec\'s own '
         'incremental encoder, plus a write->read round trip per spelling.',
    design_ref='5/C15',
    technique='contract-based deductive verification (uninterpreted codec '
              'functions) + exhaustive finite table obligations by '
              'evaluation',
    thorough=True)

CHECKS['C07'] = dict(
    category='other',
    text='Proved on all paths: the main loop only hands _read_content a '
         'length that is an int in [0, sys.maxsize] (else DiffXParseError at '
         'the header line); _read_content consumes exactly min(length, '
         'available) bytes from the position _read_until restored, whatever '
         'they contain, and _process_content never touches the stream. One '
         'obligation - a short read never yields a record - fails on the '
         'pinned tree and is recorded as a known finding (a pinned test '
         'forbids the repair). The relational statement over truncation '
         'points is covered by a bounded enumeration (every cut of generated '
         'files, perturbed length options), labelled bounded.',
    design_ref='5/C07',
    technique='contract-based deductive verification of the length framing '
              '(one known finding) + bounded truncation sweep',
    note='Level "other": proved obligations + one known finding + a bounded '
         'stand-in for the whole-history prefix statement. Trusted: A-io '
         'stream model, pyvc (A-py), z3/cvc5.',
    thorough=True)

CHECKS['C08'] = dict(
    category='other',
    text='Every function between the stream and the records (_read_until, '
         '_read_header, iter_sections, _read_content, _process_content, the '
         'text utilities, split_lines) is verified to let only '
         'DiffXParseError escape, with linenum equal to the line counter on '
         'entry, and DiffXParseError.__init__ to build its message from '
         'exactly those attributes - for all inputs, relative to the stated '
         'models of the builtins. For the object model the closing of the '
         'stream is a structural obligation; its error family is covered by '
         'a bounded fuzz (labelled bounded) and has one known finding '
         '(container header options named like object-model attributes).',
    design_ref='5/C08',
    technique='contract-based deductive verification of exception freedom '
              '(every modelled raising operation forks a path that must be '
              'caught or infeasible) + bounded fuzz for the DOM',
    note='Level "other": reader part proved relative to the builtin models; '
         'DOM part bounded with a known finding; whole-iteration '
         'termination not proved.',
    thorough=True)

CHECKS['C14'] = dict(
    category='other',
    text='Proved for every list of byte lines, with any number of hunks: '
         'only MalformedHunkError escapes (incl. the empty list - no '
         'UnboundLocalError / ValueError / KeyError / TypeError), it names a '
         'line of the input, the consumed-line count lies in [0, len] and '
         'equals len when garbage is ignored (loop invariant with a two-shape '
         'heap template for the open hunk). Geometry and the must-raise '
         'conditions: the real function is proved EQUAL to an independent '
         'specification fold on every list of <= 2 (thorough: 3) lines with '
         'symbolic contents (verdict, error line, totals, ten geometry '
         'fields per hunk); longer lists by a generator with known geometry '
         'plus single-point damages (labelled bounded). One known '
         'finding (marker directly after a completed hunk; a pinned test '
         'fixes that behaviour).',
    design_ref='5/C14',
    technique='contract-based deductive verification of the parser core '
              '(exception freedom, positions, counts) + symbolic equivalence '
              'with a specification fold on short line lists + bounded '
              'geometry generator',
    note='Level "other": core proved, geometry bounded, one known finding. '
         'Assumes lines of at most 4300 bytes (CPython int() digit limit).',
    thorough=True)

CHECKS['C02'] = dict(
    category='proof',
    text='Every public writer method, in each of the nine reachable states, '
         'is verified to append exactly RenderHeader(target id, options) + '
         'the prepared block with length = len(block), RenderHeader being '
         'the specification serializer of a header (sorted keys, ", ", None '
         'dropped); _prepare_content is verified to end the block with the '
         'BOM-free newline of the effective encoding and to indent every '
         'line after encoding; the canonical json.dumps arguments are a '
         'syntactic obligation. By the object invariant this covers every '
         'accepted call sequence. Byte-for-byte comparison with an '
         'independent serializer is the labelled bounded stand-in.',
    design_ref='5/C02',
    technique='contract-based deductive verification: functional '
              'post-conditions (output == out0 + spec serializer) on the '
              'real ASTs, z3/cvc5',
    thorough=True)
CHECKS['C01'] = dict(
    category='other',
    text='The leaves of the round trip are proved for all inputs: what the '
         'writer puts into a content section (Prepare) and what the reader '
         'makes of exactly length bytes (Recover), framing and encoding '
         'scope in the main loop. The end-to-end statement (records read == '
         'sections written, any call sequence) is NOT machine-checked as one '
         'invariant; it is covered by a bounded round-trip generator with '
         'records known from the calls (labelled bounded).',
    design_ref='5/C01',
    technique='contract-based deductive verification of the leaf functions '
              '+ bounded end-to-end round trip',
    note='Level "other": leaves proved, root composition bounded only.',
    thorough=True)
CHECKS['C03'] = dict(
    category='other',
    text='Every step of the reader (_read_header, iter_sections, '
         '_read_content, _process_content, DiffXParseError.__init__) is '
         'under contract and verified for all inputs, including which '
         'options are consulted, the option fold with integer conversion, '
         'the line counter and the line reported by parse errors. The '
         'whole-file reading is their composition, exercised on files from '
         'an independent spec-derived generator and on single-defect '
         'mutations with known error lines (labelled bounded).',
    design_ref='5/C03',
    technique='contract-based deductive verification of the per-step '
              'contracts + bounded foreign-file generator and defect '
              'catalogue',
    note='Level "other": step contracts proved, whole-file composition '
         'bounded.',
    thorough=True)

SCEN_TECH = ('contract-based deductive verification by scenario: driver '
             'programs over the real object-model API executed symbolically '
             'through the real ASTs (values symbolic, tree shape fixed), '
             'clauses discharged by z3/cvc5; bounded random histories on '
             'CPython as labelled stand-in for shape')
SCEN_NOTE = ('other = discharged for all VALUES on a fixed set of tree '
             'SHAPES (scenario verification), plus a bounded random layer '
             'for shapes and histories; not a proof over all trees.')
CHECKS['C19'] = dict(
    category='other',
    text='Every typed attribute of every container kind (own and forwarded) '
         'is exercised by a symbolic-value scenario through the real '
         'constructors, descriptors and setters: accepted => right type and '
         'choice and stored; rejected => whole tree and another tree '
         'unchanged; == of two trees of equal shape <=> deep snapshot '
         'equality. Values unbounded, tree shape fixed; Python-numeric '
         'equality (1 == True) is a known finding seen by the bounded layer.',
    design_ref='5/C19', technique=SCEN_TECH, note=SCEN_NOTE, thorough=True)
CHECKS['C18'] = dict(
    category='other',
    text='Scenario obligations over the real constructors, add_change / '
         'add_file, descriptors, __eq__, __repr__, to_bytes and the '
         'object-model writer (streaming writer behind a stub contract whose '
         'no-argument-mutation half is discharged on write_meta): mutating '
         'one tree or section leaves all others deep-equal to their '
         'snapshots; observers leave trees and writer object unchanged. '
         'Values unbounded, shape fixed; parse-result isolation and '
         'determinism by bounded random histories only.',
    design_ref='5/C18', technique=SCEN_TECH, note=SCEN_NOTE, thorough=True)
CHECKS['C13'] = dict(
    category='other',
    text='For fixed tree shapes with all values symbolic, the tree after '
         'generate_stats() equals the tree an independent specification '
         'computes from the tree before (whole-tree equality: exact file '
         'figures = hunk-parser totals of split_lines(diff, declared or '
         'guessed newline), additive change/top sums, merge into existing '
         'stats, everything else unchanged, twice == once). Text utilities '
         'and hunk parser enter as pure uninterpreted functions; what they '
         'compute is C14/C16. Shapes bounded; ground-truth generator as '
         'bounded layer; multi-byte diff encodings are a known finding.',
    design_ref='5/C13', technique=SCEN_TECH, note=SCEN_NOTE, thorough=True)
CHECKS['C05'] = dict(
    category='other',
    text='Scenario obligations, fixed tree shapes with symbolic values: the '
         'object-model writer calls the streaming writer exactly as the '
         'specification traversal prescribes (order, omitted empty sections, '
         'option renaming, defaults) and leaves the tree unchanged; the '
         'object-model reader builds from a record sequence exactly the '
         'prescribed tree. Composed with the streaming-layer contracts '
         '(C01-C04, C09-C12) on paper; the composed round trip over whole '
         'trees is exercised against an independent serializer by the '
         'bounded layer.',
    design_ref='5/C05', technique=SCEN_TECH, note=SCEN_NOTE, thorough=True)
CHECKS['C06'] = dict(
    category='other',
    text='Same two scenario families read the other way round: options are '
         'kept verbatim minus length by the object-model reader and handed '
         'back under the right argument names by the object-model writer, so '
         'byte identity on canonical files follows from C02 (bytes are a '
         'function of the calls) and C01. Foreign well-formed files '
         '(accepted => re-serialisable, same contents, fixed point) are '
         'covered by the bounded layer with the independent C03 generator.',
    design_ref='5/C06', technique=SCEN_TECH, note=SCEN_NOTE, thorough=True)
CHECKS['C20'] = dict(
    category='other',
    text='Losslessness and termination for every input are reduced, via the '
         'assumed contract of pygments\' RegexLexer driver loop, to two '
         'obligations on every rule of the real token table (capturing '
         'groups tile the match and each has an action; minimum match width '
         '> 0), decided structurally on the parsed regular expressions with '
         'the lexer\'s flags. JsonLexer/DiffLexer are assumed lossless. The '
         'header-tagging half (no Error token, Name.Tag tokens = section '
         'headers) is bounded only: lazy/lookahead matching semantics are '
         'outside what the solvers decide.',
    design_ref='5/C20',
    technique='contract-based reduction: assumed driver-loop contract + '
              'per-rule obligations decided by a structural decision '
              'procedure on the parsed regexes of the real rule table; '
              'witness strings replayed through the real lexer; bounded '
              'random/writer-produced inputs for the header-tagging half',
    note='other = every-input argument for losslessness/termination rests '
         'on an assumed library contract and a structural (not SMT) decision '
         'procedure; second half bounded.', thorough=True)

NOT_YET = 'check not built yet (work in progress; see DESIGN.md section 5)'
NA = {}


def main():
    props = [json.loads(l)['id'] for l in open(os.path.join(
        ROOT, 'properties.jsonl'))]
    checks = []
    for pid in props:
        c = CHECKS.get(pid)
        if not c:
            continue
        e = {
            'property_id': pid,
            'quick_cmd': './check %s --tier quick' % pid,
            'evidence_file': 'evidence/%s.json' % pid,
            'replay_cmd_template': './check %s --replay {path}' % pid,
            'engine': 'pyvc',
            'level_claimed': {'category': c['category'], 'text': c['text'],
                              'design_ref': c['design_ref']},
            'level_note': c.get('note', PROOF_NOTE),
            'technique': c['technique'],
        }
        if c.get('thorough'):
            e['thorough_cmd'] = './check %s --tier thorough' % pid
        checks.append(e)
    m = {
        'version': 1,
        'setup_cmd': './setup.sh',
        'hooks': {
            'guard': 'DIFFX_VERIF',
            'enable': 'no hooks: contracts are sidecars; checks read '
                      '/repo/python sources directly on every run',
            'baseline_off_cmd': 'cd /repo && /venv/bin/python -m pytest -q '
                                '-p no:cacheprovider',
            'source_commits': [],
            'add_only': True},
        'engines': [{
            'name': 'pyvc', 'path': 'pyvc/',
            'serves_properties': sorted(CHECKS),
            'kind_free_text': 'home-made deductive verifier for a Python '
                              'subset: AST symbolic execution of the real '
                              'functions against sidecar contracts, VCs '
                              'discharged by z3 5.1 / cvc5'}],
        'checks': checks,
        'not_applicable': [
            {'property_id': p, 'reason': NA.get(p, NOT_YET)}
            for p in props if p not in CHECKS],
        'notes': 'See DESIGN.md. Exit codes: 0 held, 1 VIOLATION, 2 '
                 'undecided (never a VIOLATION line), 3 checker error.',
    }
    with open(os.path.join(ROOT, 'MANIFEST.json'), 'w') as f:
        json.dump(m, f, indent=1)


if __name__ == '__main__':
    main()
