"""Apply each kept seeded change to /repo, run the named checks, undo.
usage: run_seeded.py [seed-dir-name ...]   (default: all)
Writes seeded/RESULTS.json (which checks catch which changes)."""
import json
import os
import subprocess
import sys
import time

ROOT = os.path.dirname(os.path.dirname(os.path.abspath(__file__)))


def registered():
    m = json.load(open(os.path.join(ROOT, 'MANIFEST.json')))
    return [c['property_id'] for c in m['checks']]


def main():
    names = sys.argv[1:] or sorted(
        d for d in os.listdir(os.path.join(ROOT, 'seeded'))
        if os.path.isdir(os.path.join(ROOT, 'seeded', d)))
    respath = os.path.join(ROOT, 'seeded', 'RESULTS.json')
    try:
        results = json.load(open(respath))
    except Exception:
        results = {}
    checks = registered()
    for name in names:
        d = os.path.join(ROOT, 'seeded', name)
        patch = os.path.join(d, 'patch.diff')
        if not os.path.exists(patch):
            continue
        meta = json.load(open(os.path.join(d, 'meta.json'))) \
            if os.path.exists(os.path.join(d, 'meta.json')) else {}
        pid = meta.get('property', name.split('-')[-1][:3])
        assert subprocess.run('git -C /repo status --short python',
                              shell=True, capture_output=True,
                              text=True).stdout.strip() == ''
        rc = subprocess.run(['git', '-C', '/repo', 'apply', patch]).returncode
        if rc != 0:
            print(name, 'PATCH DOES NOT APPLY')
            results[name] = {'error': 'patch does not apply'}
            continue
        import shutil
        evd = os.path.join(ROOT, 'evidence')
        bak = os.path.join(ROOT, '.evidence_backup')
        shutil.rmtree(bak, ignore_errors=True)
        shutil.copytree(evd, bak)
        try:
            targets = [pid] if os.environ.get('SEED_ONLY_OWN') else \
                ([pid] + [c for c in checks if c != pid
                          and os.environ.get('SEED_ALL')])
            out = {}
            for c in targets:
                if c not in checks:
                    out[c] = 'not registered'
                    continue
                t0 = time.time()
                p = subprocess.run(['./check', c, '--tier', 'quick'],
                                   cwd=ROOT, capture_output=True, text=True,
                                   timeout=1800)
                viol = [l for l in p.stdout.splitlines()
                        if l.startswith('VIOLATION')]
                out[c] = {'exit': p.returncode, 'violations': viol[:5],
                          'undecided': [l for l in p.stdout.splitlines()
                                        if l.startswith('UNDECIDED')][:3],
                          'wall_s': round(time.time() - t0, 1)}
                print(name, c, 'exit', p.returncode,
                      viol[0] if viol else '', flush=True)
            results[name] = out
        finally:
            subprocess.run('git -C /repo checkout -- .', shell=True)
            # evidence files must come from runs on the unchanged tree
            shutil.rmtree(evd, ignore_errors=True)
            shutil.move(bak, evd)
        json.dump(results, open(respath, 'w'), indent=1)


if __name__ == '__main__':
    main()
