"""Find and record proof hints (sufficient subsets of assumptions, by
fingerprint) for obligations the generic strategies do not discharge fast.
Hints only select a subset of the assumptions - they cannot make an invalid
obligation pass.   usage: mkhints.py <contracts module> [label substring]"""
import importlib
import json
import os
import random
import sys
from concurrent.futures import ThreadPoolExecutor

sys.path.insert(0, '/verif')
import z3  # noqa
from pyvc import verify, smt  # noqa
from pyvc import symex  # noqa

mod = importlib.import_module('contracts.' + sys.argv[1])
flt = sys.argv[2] if len(sys.argv) > 2 else ''
eng = verify.Engine()
mod.register(eng)
v = eng.verify(mod.NAME)
obs = [o for o in v.obligations if o.kind != 'canary'
       and flt in o.label and not o.trivially_true()]
seen = {}
for o in obs:
    seen.setdefault((o.label, smt.sha(o.smt2())), o)
obs = list(seen.values())
symex.HINTS.clear()           # measure without existing hints
verify.discharge(obs, timeout_s=8)
hard = [o for o in obs if o.result.status != 'unsat'
        or o.result.time_s > 4 or 'rand' in o.result.solver
        or 'cegar' in o.result.solver]
print(len(obs), 'obligations,', len(hard), 'need hints')


def run(A, G, idx, t=4):
    return smt.solve_text(smt.to_smt2([A[i] for i in sorted(idx)]
                                      + [z3.Not(G)]), timeout_s=t,
                          want_model=False).status


path = os.path.join('/verif/contracts/hints', sys.argv[1] + '.json')
hints = json.load(open(path)) if os.path.exists(path) else {}
for o in hard:
    A, G = o.assumptions, o.goal
    rng = random.Random(7)
    texts = []
    subs = []
    for t in range(48):
        p = rng.choice([0.25, 0.4, 0.5, 0.6, 0.75])
        subs.append(set(i for i in range(len(A)) if rng.random() < p))
    # smt text generation in this thread, solving in parallel
    texts = [smt.to_smt2([A[i] for i in sorted(s)] + [z3.Not(G)])
             for s in subs]
    with ThreadPoolExecutor(12) as ex:
        res = list(ex.map(lambda t: smt.solve_text(
            t, timeout_s=3, want_model=False).status, texts))
    ok = [s for s, r in zip(subs, res) if r == 'unsat']
    if not ok:
        print('NO HINT FOUND', o.id)
        continue
    core = min(ok, key=len)
    for i in sorted(core):
        if run(A, G, core - {i}, 3) == 'unsat':
            core = core - {i}
    fps = o.fingerprints()
    key = o.label_key()
    hints.setdefault(key, [])
    for i in sorted(core):
        if fps[i] not in hints[key]:
            hints[key].append(fps[i])
    print('hint', o.id, 'core size', len(core), 'of', len(A))
json.dump(hints, open(path, 'w'), indent=1, sort_keys=True)
