"""Confirm a sub-agent's seeded change in its scratch worktree and keep it
under /verif/seeded/<id>/.   usage: confirm_seed.py C16 1 [C16 2 ...]"""
import json
import os
import shutil
import subprocess
import sys

ROOT = os.path.dirname(os.path.dirname(os.path.abspath(__file__)))


def sh(cmd, cwd, env=None):
    p = subprocess.run(cmd, shell=True, cwd=cwd, capture_output=True,
                       text=True, env=env, timeout=900)
    return p.returncode, (p.stdout + p.stderr)[-600:]


def confirm(pid, k):
    wt = '/tmp/wt_%s' % pid
    sd = '%s/_seed/%s' % (wt, k)
    env = dict(os.environ, PYTHONPATH=wt + '/python',
               PYTHONDONTWRITEBYTECODE='1')
    res = {}
    rc, out = sh('git status --short python', wt)
    assert out.strip() == '', 'worktree not clean: ' + out
    res['clean_demo'] = sh('/venv/bin/python %s/demo.py' % sd, wt, env)
    rc, out = sh('git apply %s/patch.diff' % sd, wt)
    assert rc == 0, out
    try:
        res['tests'] = sh('/venv/bin/python -m pytest -q -p no:cacheprovider '
                          '2>&1 | tail -1', wt)
        res['mut_demo'] = sh('timeout 120 /venv/bin/python %s/demo.py' % sd,
                             wt, env)
    finally:
        sh('git checkout -- python', wt)
    ok = (res['clean_demo'][0] == 0 and '176 passed' in res['tests'][1]
          and res['mut_demo'][0] != 0)
    print(pid, k, 'CONFIRMED' if ok else 'REJECTED',
          res['tests'][1].strip(), '| mutated demo rc', res['mut_demo'][0])
    if ok:
        dst = os.path.join(ROOT, 'seeded', '%s-%s' % (pid, k))
        os.makedirs(dst, exist_ok=True)
        for f in ('patch.diff', 'demo.py', 'notes.txt'):
            shutil.copy(os.path.join(sd, f), dst)
        notes = open(os.path.join(sd, 'notes.txt')).read()
        json.dump({
            'property': pid, 'source': 'sub-agent, independent of /verif',
            'needs_to_manifest': notes,
            'confirmed': {
                'clean_demo_rc': res['clean_demo'][0],
                'tests_with_change': res['tests'][1].strip(),
                'demo_with_change_rc': res['mut_demo'][0],
                'demo_with_change_tail': res['mut_demo'][1][-300:]},
            'ran': 'tools/confirm_seed.py in scratch worktree ' + wt,
        }, open(os.path.join(dst, 'meta.json'), 'w'), indent=1)
    return ok


if __name__ == '__main__':
    a = sys.argv[1:]
    for i in range(0, len(a), 2):
        confirm(a[i], a[i + 1])
