"""Differential test of the engine's model of Python (assumption A-py).

Every snippet is executed (1) by CPython and (2) symbolically by pyvc - once
with literal inputs and once with symbolic inputs constrained to the same
values, so that the solver, not constant folding, has to derive the result.
The engine passes a snippet when `r == <CPython's r>` is discharged on every
path, at least one path reaches the end, nothing is undecided, and a
perturbed expectation is NOT discharged (vacuity guard).

Snippet kinds: exact (default) - the engine must derive CPython's value;
weak - the model over-approximates (uninterpreted function with sound facts):
it need not derive the value but must never derive a different one;
unsupported - the engine must answer "outside the subset" (UNDECIDED), never
a value.  A '-symbolic' suffix applies the kind to the symbolic mode only.

Run by setup.sh; exit status 1 on any disagreement."""
import sys
import os
import time

sys.path.insert(0, os.path.dirname(os.path.dirname(os.path.abspath(__file__))))

SNIPPETS = [
    # (inputs, body) - body assigns r
    ({'x': b'ab\ncd\n'}, "r = x.split(b'\\n')", 'weak'),
    ({'x': b'ab\r\ncd'}, "r = x.split(b'\\r\\n')", 'weak'),
    ({'x': b'k=v=w'}, "r = x.split(b'=', 1)"),
    ({'x': b'kv'}, "r = x.split(b'=', 1)"),
    ({'x': b'abc'}, "r = x.find(b'c')"),
    ({'x': b'abc'}, "r = x.find(b'z')"),
    ({'x': b'abcabc'}, "r = x.find(b'c', 3)"),
    ({'x': 'abc'}, "r = x.find('')"),
    ({'x': b'abc'},
     "try:\n    r = x.index(b'z')\nexcept ValueError:\n    r = -7"),
    ({'x': b'#.meta: a=b\n'}, "r = x.startswith(b'#')"),
    ({'x': b'--- a'}, "r = x.startswith((b'--- ', b'+++ '))"),
    ({'x': b'abc\r\n'}, "r = x.endswith(b'\\n')"),
    ({'x': b'abc'}, "r = x.endswith(b'')"),
    ({'x': b'abcdef'}, "r = x[1:3]"),
    ({'x': b'abcdef'}, "r = x[-2:]"),
    ({'x': b'abcdef'}, "r = x[:-2]"),
    ({'x': b'abcdef'}, "r = x[4:2]"),
    ({'x': b'abcdef'}, "r = x[2:100]"),
    ({'x': 'abcdef', 'n': 2}, "r = x[:-n]"),
    ({'x': 'abcdef', 'n': 0}, "r = x[:-n]"),
    ({'x': b'abc'}, "r = len(x)"),
    ({'x': b''}, "r = 1 if x else 2"),
    ({'x': b'a'}, "r = 1 if not x else 2"),
    ({'x': 'a', 'y': 'b'}, "r = x + y + x"),
    ({'n': 3}, "r = b' ' * n"),
    ({'n': 0}, "r = b' ' * n"),
    ({'n': -2}, "r = b'ab' * n", 'unsupported-symbolic'),
    ({'x': 'id', 'n': 12}, "r = '%s=%s' % (x, n)"),
    ({'n': 12}, "r = 'n=%d.' % n"),
    ({'x': 'a'}, "r = '%s%%' % x"),
    ({'x': b'abc'}, "r = b'#%s:' % x"),
    ({'x': '12'}, "r = int(x)"),
    ({'x': '-12'}, "r = int(x)"),
    ({'x': '+7'}, "r = int(x)", 'weak-symbolic'),
    ({'x': '1_0'},
     "try:\n    r = int(x)\nexcept ValueError:\n    r = -1", 'weak-symbolic'),
    ({'x': '\u0663'},
     "try:\n    r = int(x)\nexcept ValueError:\n    r = -1", 'weak-symbolic'),
    ({'x': ' 12 '}, "r = int(x)", 'weak-symbolic'),
    ({'x': 'ab'},
     "try:\n    r = int(x)\nexcept ValueError:\n    r = -1"),
    ({'x': ''},
     "try:\n    r = int(x)\nexcept ValueError:\n    r = -1"),
    ({'x': 'a', 'y': 'b'}, "r = x < y", 'unsupported'),
    ({'n': 3, 'm': 5}, "r = 0 <= n < m"),
    ({'n': 3, 'm': 5}, "r = n // 2 + m % 3 - (-m) // 2", 'unsupported'),
    ({'n': -7}, "r = n // 2"),
    ({'n': -7}, "r = n % 3", 'unsupported'),
    ({'n': 3}, "r = n or 9"),
    ({'n': 0}, "r = n or 9"),
    ({'n': 0}, "r = n and 9"),
    ({'x': 'u'}, "r = x in ('u', 'v')"),
    ({'x': 'w'}, "r = x not in ('u', 'v')"),
    ({'x': b'b'}, "r = x in b'abc'"),
    ({'x': 'k'}, "d = {'k': 1}\nr = d.get(x)"),
    ({'x': 'z'}, "d = {'k': 1}\nr = d.get(x, 5)"),
    ({'x': 'k'}, "d = {'k': 1, 'j': 2}\nr = d.pop(x, None)\nr = (r, len(d))", 'unsupported-symbolic'),
    ({'x': 'z'},
     "d = {'k': 1}\ntry:\n    r = d[x]\nexcept KeyError:\n    r = -1"),
    ({'n': 4}, "d = {'a': 1}\nd.update({'b': n})\nr = sorted(d.items())", 'unsupported'),
    ({'n': 4}, "d = {'a': 1}\ne = d.copy()\ne['a'] = n\nr = d['a']"),
    ({'n': 4}, "l = [1, 2]\nl.append(n)\nr = l[-1] + len(l)"),
    ({'n': 4}, "l = [1, 2, n]\nr = l[1:]"),
    ({'n': 1}, "l = [5, 6, 7]\nr = l.pop()\nr = (r, l)"),
    ({'n': 2}, "a, b = n, n + 1\nr = b - a"),
    ({'n': 3}, "r = 0\nfor i in range(n):\n    r += i"),
    ({'n': 3},
     "r = 0\nfor i in range(10):\n    if i == n:\n        break\n"
     "    r += 1\nelse:\n    r = -1"),
    ({'n': 3},
     "r = 0\ni = 0\nwhile i < n:\n    i += 1\n    if i == 2:\n"
     "        continue\n    r += i", 'unsupported'),
    ({'n': 3},
     "r = []\nfor i, c in enumerate(['a', 'b']):\n    r.append((i, c))"),
    ({'n': 3},
     "r = 0\ntry:\n    r = 1\n    raise ValueError('x')\nexcept "
     "(TypeError, ValueError):\n    r += 10\nfinally:\n    r += 100"),
    ({'n': 3},
     "r = 0\ntry:\n    r = 1\nexcept ValueError:\n    r = 2\nelse:\n"
     "    r += 5"),
    ({'x': 'ab'}, "r = isinstance(x, str) and not isinstance(x, bytes)"),
    ({'n': 1}, "r = isinstance(n, int) and not isinstance(n, bool)"),
    ({'x': 'caf\u00e9'}, "r = x.encode('utf-8')", 'weak'),
    ({'x': 'abc'}, "r = x.encode('ascii')"),
    ({'x': b'abc'}, "r = x.decode('ascii')"),
    ({'x': 'a b'}, "r = ', '.join(['x', x, 'y'])"),
    ({'x': b'l'}, "r = b''.join([x, x, b'm'])"),
    ({'x': ' a '}, "r = x.strip()"),
    ({'x': b'a\nb'}, "r = x.replace(b'\\n', b'\\r\\n')", 'weak-symbolic'),
    ({'n': 5}, "r = [k * n for k in (1, 2)]"),
    ({'n': 5}, "r = {k: n for k in ('a', 'b')}"),
    ({'n': 5}, "r = all(k < n for k in (1, 2, 7))"),
    ({'n': 5}, "r = [(a, b) for a, b in zip([1, 2, 3], [n, n])]"),
    ({'n': 5}, "r = None\nr = n if r is None else r"),
    ({'x': 'q'}, "r = x == 'q' and x != 'p'"),
    ({'n': 5}, "r = min(n, 3) + max(n, 3)"),
    ({'x': 'dos'},
     "m = {'dos': b'\\r\\n', 'unix': b'\\n'}\nr = m.get(x)"),
    # --- idioms of the real reader / writer ------------------------------
    ({'x': b'abcdef'}, "fp = io.BytesIO(x)\na = fp.read(2)\nr = (a, fp.tell(), fp.read())"),
    ({'x': b'abcdef'}, "fp = io.BytesIO(x)\nfp.read(4)\nfp.seek(-3, os.SEEK_CUR)\nr = (fp.tell(), fp.read(2))"),
    ({'x': b'ab'}, "fp = io.BytesIO(x)\nr = (fp.read(5), fp.read(5), fp.tell())"),
    ({'x': b'ab'}, "fp = io.BytesIO()\nfp.write(x)\nfp.write(b'!')\nr = fp.getvalue()"),
    ({'x': b'#..meta: a=b'},
     "m = re.compile(br'^#(?P<level>\\.{0,3})(?P<name>[a-z]+):').match(x)\n"
     "r = (m.group('level'), m.group('name')) if m else None"),
    ({'x': b'#meta a=b'},
     "m = re.compile(br'^#(?P<level>\\.{0,3})(?P<name>[a-z]+):').match(x)\n"
     "r = (m.group('level'), m.group('name')) if m else None"),
    ({'x': 'a-b_c/1.0'},
     "r = 1 if re.compile(r'^[A-Za-z0-9_./-]+$').match(x) else 0"),
    ({'x': 'a b'},
     "r = 1 if re.compile(r'^[A-Za-z0-9_./-]+$').match(x) else 0"),
    ({'x': '-12'}, "r = 1 if re.compile(r'^-?[0-9]+$').match(x) else 0"),
    ({'x': '12\n'}, "r = 1 if re.compile(r'^-?[0-9]+$').match(x) else 0"),
    ({'x': 'utf-8', 'n': 3},
     "o = {'length': n, 'encoding': x, 'indent': None}\n"
     "r = ', '.join('%s=%s' % (k, v) for k, v in "
     "sorted(o.items(), key=lambda pair: pair[0]) if v is not None)"),
    ({'n': 3}, "o = {'a': 1}\np = dict(o, **{'b': n, 'a': 2})\nr = (p['a'], p['b'], len(p), o['a'])"),
    ({'x': b'  '}, "r = 1 if x.strip() else 0"),
    ({'x': b'ab\n', 'y': b'\n'}, "r = x[:-len(y)] if x.endswith(y) else x"),
    ({'x': b'ab', 'y': b'\r\n'}, "r = x if x.endswith(y) else x + y"),
    ({'n': 2}, "st = [{'e': 1}, {'e': 2}, {'e': 3}]\nfor _ in range(n):\n    st.pop()\nr = st[-1]['e']"),
    ({'x': 'text'}, "r = isinstance(x, (bytes, str))"),
    ({'x': b'l1\nl2\n'}, "lines = x.split(b'\\n')\nr = len(lines)", 'weak'),
    ({'n': 3, 'm': 5}, "r = min(n, m)"),
    ({'x': 'a'}, "r = {'k': x}.copy() == {'k': 'a'}"),
    ({'n': 5}, "def_v = None\nr = def_v or n"),
    ({'x': 'dos'}, "r = x is not None and x not in ('dos', 'unix')"),
    ({'x': b'#.change:\n'}, "r = x.decode('ascii').strip()", 'weak-symbolic'),
    ({'n': 4}, "r = '.' * n + 'meta'"),
    ({'x': '..meta'}, "r = len(x) - len(x.lstrip('.'))"),
    # --- aliasing / heap (what C18 / C19 rest on) --------------------------
    ({'n': 7}, "a = [1]\nb = a\nb.append(n)\nr = a"),
    ({'n': 7}, "a = {'k': [1]}\nb = a.copy()\nb['k'].append(n)\nb['j'] = 0\nr = (a['k'], len(a))"),
    ({'n': 7}, "a = {'k': [1]}\nb = deepcopy(a)\nb['k'].append(n)\nr = (a['k'], b['k'])"),
    ({'n': 7}, "a = [1, 2]\nb = a[:]\nb.append(n)\nr = (len(a), len(b))"),
    ({'n': 7}, "d = {}\ne = d\ne['x'] = n\nr = d.get('x')"),
    ({'n': 7}, "a = [1]\nb = a\na += [n]\nr = b"),
    ({'n': 7}, "t = (1, [2])\nt[1].append(n)\nr = t"),
    ({'n': 7}, "d = {}\nd.setdefault('k', []).append(n)\nd.setdefault('k', []).append(1)\nr = d", 'unsupported'),
    ({'n': 7}, "d = {'a': 1}\ne = d\nd.clear()\nd.update({'b': n})\nr = e"),
    ({'n': 7}, "d = {'a': 1, 'b': n}\ndel d['a']\nr = ('a' in d, 'b' in d, len(d))", 'unsupported'),
    ({'n': 7}, "d = {'a': 1}\ne = dict(d)\ne['a'] = n\nr = d['a']"),
    ({'n': 7}, "r = []\nfor k, v in {'a': 1, 'b': n}.items():\n    r.append((k, v))"),
    ({'x': 'v'}, "r = '%s/%s' % (None, x)"),
    ({'n': 1}, "r = (n == True, n is True, isinstance(True, int))", 'weak'),
    ({'n': 1}, "r = {'a': n} == {'a': True}", 'weak'),
    ({'n': 7}, "a = [1, 2]\nb = [1, 2]\nr = (a == b, a is b, a is a)"),
    ({'n': 7}, "def_d = {'f': 'json'}\no1 = def_d.copy()\no2 = def_d.copy()\no1['f'] = n\nr = (o2['f'], def_d['f'])"),
    ({'n': 2}, "l = [10, 20, 30]\nr = (l[n], l[-1], l[:n], l.index(20))", 'unsupported'),
    ({'n': 2}, "l = [10, 20, 30]\nr = (l[1], l[-1], l[:2], l[1:])"),
    ({'n': 2},
     "l = [10, 20]\ntry:\n    r = l[n]\nexcept IndexError:\n    r = -1",
     'unsupported-symbolic'),
    ({'n': 7}, "a = b = []\na.append(n)\nr = b"),
    ({'x': 'k'}, "d = {'k': 1}\nr = [d.pop(x), len(d)]", 'unsupported-symbolic'),
    # --- regex flags -------------------------------------------------------
    ({'x': 'b\na'}, "r = 1 if re.compile(r'^a', re.M).match(x) else 0"),
    ({'x': 'a\nb'}, "r = 1 if re.compile(r'^a$', re.M).match(x) else 0"),
    ({'x': 'a\nb'}, "r = 1 if re.compile(r'^a$').match(x) else 0"),
    ({'x': 'A'}, "r = 1 if re.compile(r'^a$', re.I).match(x) else 0",
     'unsupported'),
    ({'x': 'a\n'}, "r = 1 if re.compile(r'^a\\Z').match(x) else 0"),
    ({'x': 'a\nb'}, "r = 1 if re.compile(r'^a.b$', re.S).match(x) else 0"),
    ({'x': 'a\nb'}, "r = 1 if re.compile(r'^a.b$').match(x) else 0"),
    # --- arguments the models do not understand must not be ignored --------
    ({'x': b'abcabc'}, "r = x.find(b'c', 0, 2)", 'unsupported'),
    ({'x': b'abc'}, "r = x.startswith(b'b', 1)", 'unsupported'),
    ({'x': 'ff'}, "r = int(x, 16)", 'unsupported'),
    ({'x': 'café'}, "r = x.encode('ascii', 'replace')", 'unsupported'),
    ({'x': b'  a '}, "r = x.strip(b' ')"),
    ({'x': b'ab\n\n'}, "r = x.rstrip(b'\\n')"),
    ({'x': b'ab\r\n'}, "r = x.rstrip(b'\\r\\n')"),
    ({'x': b'a\nb'}, "r = x.rstrip(b'\\n')"),
    ({'x': b'\n\n'}, "r = x.rstrip(b'\\n')"),
    ({'x': '..meta'}, "r = x.lstrip('.')"),
    ({'x': ' a \t'}, "r = x.rstrip()"),
    ({'x': '12'}, "r = x.isdigit()"),
    ({'x': '-12'}, "r = x.isdigit()"),
    ({'x': ''}, "r = x.isdigit()"),
    ({'x': b'12'}, "r = x.isdigit()"),
    ({'x': '٣'}, "r = x.isdigit()", 'weak'),
    # --- exceptions, with, finally -----------------------------------------
    ({'n': 1},
     "try:\n    raise DiffXParseError('m', linenum=n)\nexcept BaseDiffXError as e:\n    r = e.linenum"),
    ({'n': 1},
     "r = 0\ntry:\n    try:\n        raise ValueError('x')\n    finally:\n        r += 1\nexcept ValueError:\n    r += 10"),
    ({'n': 1},
     "r = 0\ntry:\n    raise KeyError('k')\nexcept (RecursionError, ValueError):\n    r = 1\nexcept LookupError:\n    r = 2"),
    ({'n': 1},
     "r = 0\ntry:\n    raise UnicodeDecodeError('a', b'', 0, 1, 'r')\nexcept ValueError:\n    r = 3"),
    ({'x': b'ab'},
     "fp = io.BytesIO(x)\nwith fp:\n    a = fp.read(1)\nr = (a, fp.closed)"),
    ({'n': 2},
     "def_r = []\nfor i in range(3):\n    try:\n        if i == n:\n            continue\n        def_r.append(i)\n    finally:\n        def_r.append(-1)\nr = def_r"),
    ({'n': 5}, "r = n if n > 3 else (n - 1 if n > 1 else 0)"),
    ({'n': 5}, "r = not (n > 3 and n < 10) or n == 7"),
    ({'x': 'a'}, "r = x * 2 + 'b' * 0", 'unsupported-symbolic'),
    # --- codecs: known to lookup() is not enough for encode / decode -------
    ({'x': b'6162'},
     "try:\n    r = x.decode('hex')\nexcept LookupError:\n    r = 'LookupError'"),
    ({'x': 'ab'},
     "try:\n    r = x.encode('rot13')\nexcept LookupError:\n    r = 'LookupError'"),
    ({'x': 'ab'},
     "try:\n    r = x.encode('no-such-codec')\nexcept LookupError:\n    r = 'LookupError'"),
]


def literal(v):
    return repr(v)


def wrong(v):
    if isinstance(v, bool):
        return not v
    if isinstance(v, int):
        return v + 1
    if isinstance(v, str):
        return v + 'x'
    if isinstance(v, bytes):
        return v + b'x'
    if isinstance(v, list):
        return v + [0]
    if isinstance(v, tuple):
        return v + (0,)
    if isinstance(v, dict):
        return dict(v, zz=0)
    return 0 if v is None else None


def sym_decl(name, v):
    k = {bytes: 'SYM_BYTES', str: 'SYM_STR', int: 'SYM_INT'}[type(v)]
    return '%s = %s()\nASSUME(%s == %s)\n' % (name, k, name, literal(v))


def run_one(args):
    idx, mode = args
    from contracts import dom_scenarios as DS
    from pyvc import scenario, verify
    inputs, body = SNIPPETS[idx][:2]
    kind = SNIPPETS[idx][2] if len(SNIPPETS[idx]) > 2 else 'exact'
    if kind.endswith('-symbolic'):
        kind = kind[:-9] if mode == 'symbolic' else 'exact'
    env = dict(inputs)
    import io, os, re, json, copy
    from pyvc import extract as _ex
    _errs = _ex.load_module('pydiffx.errors')[0]
    env.update({k: v for k, v in vars(_errs).items() if isinstance(v, type)})
    env.update({'io': io, 'os': os, 're': re, 'json': json, 'deepcopy': copy.deepcopy})
    exec(body, env)
    want = env['r']
    if mode == 'literal':
        head = ''.join('%s = %s\n' % (k, literal(v))
                       for k, v in inputs.items())
    else:
        head = ''.join(sym_decl(k, v) for k, v in inputs.items())
    src = head + body + '\n'
    out = []
    for label, expect, must in (('agree', want, 'unsat'),
                                ('vacuity', wrong(want), 'not-unsat')):
        eng = DS.make_engine()
        try:
            v = scenario.run_scenario(
                eng, 'difftest%d' % idx, DS.MOD, src,
                [(label, 'r == %s' % literal(expect))], max_paths=200,
                extra_modules=('pydiffx.errors', 'io', 're', 'os', 'json', 'copy'))
        except Exception as e:  # noqa
            return idx, mode, 'engine error %s: %s' % (type(e).__name__, e)
        if v.undecided:
            if kind == 'unsupported':
                return idx, mode, None       # "do not know" is acceptable
            return idx, mode, 'undecided: %s' % v.undecided[0]
        if kind == 'unsupported':
            return idx, mode, 'expected to be outside the subset'
        if not v.exit_kinds.get('end'):
            return idx, mode, 'no path reaches the end %r' % v.exit_kinds
        obs = [o for o in v.obligations if o.kind != 'canary']
        verify.discharge(obs, timeout_s=10, jobs=1)
        st = [o.result.status if o.result else 'none' for o in obs
              if o.label == label]
        other = [o for o in obs if o.label != label and not (
            o.result and o.result.status == 'unsat')]
        if other and kind != 'weak':
            return idx, mode, 'spurious obligation %s' % other[0].id
        if must == 'unsat' and kind == 'weak':
            continue      # an over-approximating model need not derive it
        if must == 'unsat' and any(s != 'unsat' for s in st):
            return idx, mode, 'engine does not derive r == %r (%s)' % (
                want, st)
        if must == 'not-unsat' and st and all(s == 'unsat' for s in st):
            return idx, mode, 'engine also derives the WRONG value %r' % (
                expect,)
    return idx, mode, None


def main():
    import multiprocessing as mp
    t0 = time.time()
    jobs = [(i, m) for i in range(len(SNIPPETS))
            for m in ('literal', 'symbolic')]
    with mp.get_context('fork').Pool(12) as pool:
        res = pool.map(run_one, jobs)
    bad = [(i, m, e) for i, m, e in res if e]
    for i, m, e in bad:
        print('DIFFTEST FAIL [%s] %r %r: %s' % (m, SNIPPETS[i][0],
                                                SNIPPETS[i][1], e))
    print('difftest: %d snippets x 2 modes, %d disagreements, %.0fs' % (
        len(SNIPPETS), len(bad), time.time() - t0))
    return 1 if bad else 0


if __name__ == '__main__':
    sys.exit(main())
