"""Developer tool: for an undischarged obligation, find a solvable subset of
its assumptions and then the assumptions that 'poison' the solvers.
usage: poison.py <contracts module> <label substring> [index]"""
import importlib
import random
import sys

sys.path.insert(0, '/verif')
import z3  # noqa
from pyvc import verify, smt  # noqa
from pyvc.symex import symbols_of  # noqa

mod = importlib.import_module('contracts.' + sys.argv[1])
eng = verify.Engine()
mod.register(eng)
v = eng.verify(mod.NAME)
obs = [o for o in v.obligations if o.kind != 'canary'
       and sys.argv[2] in o.label and not o.trivially_true()]
verify.discharge(obs, timeout_s=10)
obs = [o for o in obs if o.result.status != 'unsat']
print(len(obs), 'undischarged')
o = obs[int(sys.argv[3]) if len(sys.argv) > 3 else 0]
A = o.assumptions
G = o.goal
print(o.id, len(A))


def run(idx, t=5):
    return smt.solve_text(smt.to_smt2([A[i] for i in sorted(idx)]
                                      + [z3.Not(G)]), timeout_s=t,
                          want_model=False).status


rng = random.Random(1)
core = None
for t in range(40):
    p = rng.choice([0.3, 0.5, 0.7])
    sub = set(i for i in range(len(A)) if rng.random() < p)
    if run(sub, 3) == 'unsat':
        core = sub
        print('found solvable subset of size', len(sub), 'at try', t)
        break
if core is None:
    print('no solvable random subset')
    sys.exit(1)
# shrink
for i in sorted(core):
    if run(core - {i}, 3) == 'unsat':
        core = core - {i}
print('core', sorted(core))
for i in sorted(core):
    print('  ', i, str(A[i])[:200].replace('\n', ' '))
cur = set(core)
bad = []
for i in range(len(A)):
    if i in cur:
        continue
    if run(cur | {i}, 4) == 'unsat':
        cur.add(i)
    else:
        bad.append(i)
        print('POISON', i, sorted(symbols_of(A[i])),
              str(A[i])[:300].replace('\n', ' '))
print('GOAL', str(G)[:400])
