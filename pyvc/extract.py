"""Mechanical extraction of the real functions from /repo's working tree.

The function body that is verified is the `ast` of the repository file read at
check time.  Dropped (exactly): docstrings and comments.  Nothing else.
"""
import ast
import hashlib
import importlib
import os
import sys

REPO_PY = os.environ.get('PYVC_REPO_PY', '/repo/python')


class FuncInfo(object):
    def __init__(self, qualname, modname, module, node, clsname, file, src):
        self.qualname = qualname
        self.modname = modname
        self.module = module
        self.node = node
        self.clsname = clsname
        self.file = file
        seg = ast.get_source_segment(src, node) or ''
        self.sha = hashlib.sha256(seg.encode('utf-8')).hexdigest()[:16]
        self.lines = (node.lineno, node.end_lineno)

    def describe(self):
        return {'name': self.qualname, 'file': self.file,
                'lines': list(self.lines), 'sha256_16': self.sha}


_mod_cache = {}


def load_module(modname):
    if modname in _mod_cache:
        return _mod_cache[modname]
    if REPO_PY not in sys.path:
        sys.path.insert(0, REPO_PY)
    sys.dont_write_bytecode = True
    module = importlib.import_module(modname)
    file = module.__file__
    with open(file) as f:
        src = f.read()
    tree = ast.parse(src, file)
    _mod_cache[modname] = (module, tree, src, file)
    return _mod_cache[modname]


def _strip_docstring(node):
    body = node.body
    if body and isinstance(body[0], ast.Expr) and \
            isinstance(getattr(body[0], 'value', None), ast.Constant) and \
            isinstance(body[0].value.value, str):
        return body[1:]
    return body


def find_function(qualname):
    """'pkg.mod.Class.func' or 'pkg.mod.func' -> FuncInfo"""
    parts = qualname.split('.')
    for cut in range(len(parts) - 1, 0, -1):
        modname = '.'.join(parts[:cut])
        path = os.path.join(REPO_PY, *parts[:cut])
        if os.path.isfile(path + '.py') or os.path.isfile(
                os.path.join(path, '__init__.py')):
            rest = parts[cut:]
            break
    else:
        raise KeyError(qualname)
    module, tree, src, file = load_module(modname)
    scope = tree.body
    clsname = None
    node = None
    for i, name in enumerate(rest):
        found = None
        for n in scope:
            if isinstance(n, (ast.FunctionDef, ast.ClassDef)) and \
                    n.name == name:
                found = n   # last definition wins (e.g. property setter)
                if isinstance(n, ast.FunctionDef) and i == len(rest) - 1:
                    # prefer the plain def / getter unless asked otherwise
                    pass
        if found is None:
            raise KeyError(qualname)
        if isinstance(found, ast.ClassDef):
            clsname = found.name
            scope = found.body
        node = found
    if not isinstance(node, ast.FunctionDef):
        raise KeyError(qualname + ' is not a function')
    return FuncInfo(qualname, modname, module, node, clsname, file, src)


def find_all_defs(qualname):
    """All FunctionDefs with that qualname (property getter + setter)."""
    parts = qualname.split('.')
    fi = find_function(qualname)
    module, tree, src, file = load_module(fi.modname)
    out = []
    scope = tree.body
    rest = parts[len(fi.modname.split('.')):]
    for i, name in enumerate(rest[:-1]):
        for n in scope:
            if isinstance(n, ast.ClassDef) and n.name == name:
                scope = n.body
    for n in scope:
        if isinstance(n, ast.FunctionDef) and n.name == rest[-1]:
            out.append(FuncInfo(qualname, fi.modname, module, n, fi.clsname,
                                file, src))
    return out


def body_of(fi):
    return _strip_docstring(fi.node)
