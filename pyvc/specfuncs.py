"""Specification-only functions available inside contract clauses."""
import z3

from .values import (VInt, VBool, VNone, VStr, VTuple, VBox, VRef, VConc,
                     VFunc, SeqCell, ListCell, StreamCell, Unsupported, Val)
from .symex import truth, as_int
from . import models as M


def _b(it, v):
    if isinstance(v, z3.BoolRef):
        return v
    return truth(it.ctx, v)


def f_implies(it, args, kw):
    return VBool(z3.Implies(_b(it, args[0]), _b(it, args[1])))


def f_iff(it, args, kw):
    return VBool(_b(it, args[0]) == _b(it, args[1]))


def _quant(it, args, q):
    lam = args[0].py[1]
    names = [p.arg for p in lam.args.args]
    ctx = it.ctx
    fr = ctx.frame
    saved = dict(fr.locals)
    vs = []
    try:
        for n in names:
            x = ctx.fresh_int(n)
            vs.append(x)
            fr.locals[n] = VInt(x)
        body = _b(it, it.ev(lam.body))
    finally:
        fr.locals = saved
    if len(args) >= 3:
        lo, hi = as_int(args[1]), as_int(args[2])
        rng = z3.And(vs[0] >= lo, vs[0] < hi)
        body = z3.Implies(rng, body) if q is z3.ForAll else z3.And(rng, body)
    return VBool(q(vs, body))


def f_forall(it, args, kw):
    return _quant(it, args, z3.ForAll)


def f_exists(it, args, kw):
    return _quant(it, args, z3.Exists)


def _s(v):
    if not isinstance(v, VStr):
        raise Unsupported('expected string in spec function, got %r' % (v,))
    return v


def f_Count(it, args, kw):
    return VInt(M.F_Count(_s(args[0]).e, _s(args[1]).e))


def _seq(it, v):
    c = it.ctx.cell(v)
    if isinstance(c, SeqCell):
        return c.e, c.elem
    if isinstance(c, ListCell):
        from .symex import elem_expr
        from . import lists
        kind = 'bytes' if (not c.items or c.items[0].b) else 'str'
        return lists.l_from_items(
            it.ctx, M.SeqString, [elem_expr(kind, x) for x in c.items]), kind
    raise Unsupported('expected list')


def f_ConcatAll(it, args, kw):
    e, kind = _seq(it, args[0])
    return VStr(M.F_ConcatAll(e), kind == 'bytes')


def f_Split(it, args, kw):
    d, sep = _s(args[0]), _s(args[1])
    return it.ctx.alloc(SeqCell(M.F_Split(d.e, sep.e),
                                'bytes' if d.b else 'str'))


def f_stream_data(it, args, kw):
    c = it.ctx.cell(args[0])
    return VStr(c.data, True)


def f_stream_pos(it, args, kw):
    c = it.ctx.cell(args[0])
    return VInt(c.pos)


def f_stream_closed(it, args, kw):
    c = it.ctx.cell(args[0])
    return VBool(c.closed)


def f_in_re(it, args, kw):
    return VBool(z3.InRe(_s(args[0]).e, args[1].py))


def f_is_none(it, args, kw):
    v = args[0]
    if isinstance(v, VBox):
        return VBool(Val.is_NoneV(v.e))
    return VBool(v is VNone)


def install(engine):
    sf = engine.spec_funcs
    sf['implies'] = VFunc(f_implies, 'implies')
    sf['iff'] = VFunc(f_iff, 'iff')
    sf['forall'] = VFunc(f_forall, 'forall')
    sf['exists'] = VFunc(f_exists, 'exists')
    sf['Count'] = VFunc(f_Count, 'Count')
    sf['ConcatAll'] = VFunc(f_ConcatAll, 'ConcatAll')
    sf['Split'] = VFunc(f_Split, 'Split')
    sf['stream_data'] = VFunc(f_stream_data, 'stream_data')
    sf['stream_pos'] = VFunc(f_stream_pos, 'stream_pos')
    sf['stream_closed'] = VFunc(f_stream_closed, 'stream_closed')
    sf['in_re'] = VFunc(f_in_re, 'in_re')
    sf['is_none'] = VFunc(f_is_none, 'is_none')
