"""EUF abstraction of string/regex reasoning (a discharge strategy).

Every application of a string / sequence / regular-expression operator is
replaced by an uninterpreted function of the same arity (regular expressions
become constants of an uninterpreted sort, identical expressions mapping to
the same constant).  String literals, equality, Booleans, integers, arrays,
datatypes and the program's own uninterpreted functions are kept.

Soundness: any model of the original formula yields a model of the abstract
one (interpret the new symbols as the operators they replace), so `unsat` of
the abstraction implies `unsat` of the original.  The abstraction is immune
to the string solver's sensitivity to irrelevant facts; the string-specific
steps of a proof then have to be supplied as lemma instances.
"""
import hashlib

import z3

ReAbs = z3.DeclareSort('ReAbs')
_fun_cache = {}
_re_cache = {}


def _is_re_sort(s):
    return s.kind() == z3.Z3_RE_SORT


def _abs_sort(s):
    return ReAbs if _is_re_sort(s) else s


STRING_OP_PREFIXES = ('str.', 'seq.', 're.', 'int.to.str')


def _is_string_op(d):
    k = d.kind()
    if z3.Z3_OP_SEQ_UNIT <= k <= z3.Z3_OP_SEQ_UNIT + 200:
        # z3 groups sequence / regex operator kinds together
        pass
    name = d.name()
    return name.startswith(STRING_OP_PREFIXES) or name in (
        'seq.++', 'str.++') or k in _SEQ_KINDS


_SEQ_KINDS = set()
for _n in dir(z3):
    if _n.startswith('Z3_OP_SEQ_') or _n.startswith('Z3_OP_RE_') or \
            _n.startswith('Z3_OP_STR') or _n in ('Z3_OP_INT_TO_STR',
                                                 'Z3_OP_STR_TO_INT',
                                                 'Z3_OP_STRING_LT',
                                                 'Z3_OP_STRING_LE'):
        _SEQ_KINDS.add(getattr(z3, _n))


def abstract(e, cache=None):
    cache = {} if cache is None else cache

    def go(x):
        key = x.get_id()
        r = cache.get(key)
        if r is not None:
            return r
        if z3.is_quantifier(x):
            raise ValueError('quantifier in VC')
        if not z3.is_app(x):
            cache[key] = x
            return x
        if _is_re_sort(x.sort()):
            h = hashlib.sha1(x.sexpr().encode('utf-8')).hexdigest()[:12]
            c = _re_cache.get(h)
            if c is None:
                c = z3.Const('re_' + h, ReAbs)
                _re_cache[h] = c
            cache[key] = c
            return c
        d = x.decl()
        if z3.is_string_value(x):
            cache[key] = x
            return x
        args = [go(a) for a in x.children()]
        if d.kind() in _SEQ_KINDS and not z3.is_string_value(x):
            sig = (d.name(), tuple(str(a.sort()) for a in args),
                   str(x.sort()))
            f = _fun_cache.get(sig)
            if f is None:
                nm = 'abs_%s_%d' % (d.name().replace('.', '_').replace(
                    '+', 'cat'), len(_fun_cache))
                f = z3.Function(nm, *([a.sort() for a in args] + [x.sort()]))
                _fun_cache[sig] = f
            r = f(*args) if args else z3.Const('abs_' + d.name(), x.sort())
            cache[key] = r
            return r
        if not args:
            cache[key] = x
            return x
        try:
            r = d(*args)
        except z3.Z3Exception:
            r = x
        cache[key] = r
        return r
    return go(e)


def abstract_all(exprs):
    cache = {}
    return [abstract(x, cache) for x in exprs]
