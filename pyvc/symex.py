"""pyvc symbolic executor: forward symbolic execution of the *real* function
ASTs, one run per path (decision-prefix re-execution), producing verification
conditions that are discharged by the SMT portfolio.

See DESIGN.md sections 1-3.  Anything outside the subset raises Unsupported,
which makes the function's verdict UNDECIDED - never silently skipped.
"""
import ast
import builtins as pybuiltins
import types

import z3

from . import smt
from .values import (V, VInt, VBool, VNone, VNoneT, VStr, VTuple, VBox, VRef,
                     VConc, VFunc, VExc, VMatch, Val, Cell, ListCell, SeqCell,
                     DictCell, ObjCell, StreamCell, Unsupported, box, from_py,
                     SeqString, SeqVal)


class PathEnd(Exception):
    """The current path is abandoned (infeasible or cut at a back edge)."""


class _Return(Exception):
    def __init__(self, value):
        self.value = value


class _Break(Exception):
    pass


class _Continue(Exception):
    pass


class PyRaise(Exception):
    """A Python-level exception propagating in the analysed program."""

    def __init__(self, exc, where=None):
        self.exc = exc
        self.where = where


class Obligation(object):
    def __init__(self, oid, label, assumptions, goal, where, path, kind):
        self.id = oid
        self.label = label
        self.assumptions = list(assumptions)
        self.goal = goal
        self.where = where
        self.path = path
        self.kind = kind
        self.result = None

    def smt2(self):
        return smt.to_smt2(self.assumptions + [z3.Not(self.goal)])

    def trivially_true(self):
        g = z3.simplify(self.goal)
        return z3.is_true(g)


class Frame(object):
    def __init__(self, fi, module_globals):
        self.fi = fi
        self.locals = {}
        self.globals = module_globals
        self.loop_ord = 0
        self.call_ord = 0


_feas_cache = {}


class Ctx(object):
    def __init__(self, engine, prefix):
        self.engine = engine
        self.prefix = list(prefix)
        self.taken = []
        self.alternatives = []
        self.pc = []
        self.heap = {}
        self.next_ref = 0
        self.fresh_n = 0
        self.obligations = []
        self.spec_mode = 0
        self.frames = []
        self.yielded = []
        self.ghost = {}
        self.notes = []
        self.trace = []

    # -- naming ---------------------------------------------------------
    def fresh(self, base, sort):
        self.fresh_n += 1
        return z3.Const('%s!%d' % (base, self.fresh_n), sort)

    def fresh_int(self, base='i'):
        return self.fresh(base, z3.IntSort())

    def fresh_str(self, base='s'):
        return self.fresh(base, z3.StringSort())

    def fresh_bool(self, base='b'):
        return self.fresh(base, z3.BoolSort())

    # -- heap -------------------------------------------------------------
    def alloc(self, cell):
        self.next_ref += 1
        self.heap[self.next_ref] = cell
        return VRef(self.next_ref)

    def cell(self, v):
        if not isinstance(v, VRef):
            raise Unsupported('expected heap reference, got %r' % (v,))
        return self.heap[v.ref]

    # -- path condition -----------------------------------------------------
    def assume(self, cond):
        cond = z3.simplify(cond)
        if z3.is_true(cond):
            return
        if z3.is_false(cond):
            raise PathEnd()
        self.pc.append(cond)

    def feasible(self, extra):
        key = (tuple(a.get_id() for a in self.pc), extra.get_id())
        r = _feas_cache.get(key)
        if r is None:
            r = smt.quick_check(self.pc + [extra],
                                timeout_ms=self.engine.feas_timeout_ms)
            _feas_cache[key] = r
        return r != smt.UNSAT

    def choose(self, n, conds=None, label=''):
        """n-ary decision; conds (optional) are the z3 guards of the
        alternatives, used for feasibility pruning and added to pc."""
        idx = len(self.taken)
        if idx < len(self.prefix):
            d = self.prefix[idx]
        else:
            feas = []
            for k in range(n):
                if conds is None or self.feasible(conds[k]):
                    feas.append(k)
            if not feas:
                raise PathEnd()
            d = feas[0]
            for k in feas[1:]:
                self.alternatives.append(self.taken + [k])
        self.taken.append(d)
        if conds is not None:
            self.assume(conds[d])
        return d

    def branch(self, cond):
        cond = z3.simplify(cond)
        if z3.is_true(cond):
            return True
        if z3.is_false(cond):
            return False
        if self.spec_mode:
            raise Unsupported('control-flow branch on a symbolic condition '
                              'inside a specification expression')
        d = self.choose(2, [cond, z3.Not(cond)])
        return d == 0

    # -- obligations ----------------------------------------------------------
    def oblige(self, label, goal, where='', kind='post'):
        goal_s = z3.simplify(goal)
        ob = Obligation(None, label, self.pc, goal_s, where,
                        list(self.taken), kind)
        self.obligations.append(ob)
        return ob

    @property
    def frame(self):
        return self.frames[-1]


def where_of(fi, node):
    return '%s:%s' % (fi.file, getattr(node, 'lineno', '?'))


# ---------------------------------------------------------------------------
# truthiness / equality / boxing helpers
# ---------------------------------------------------------------------------
def truth(ctx, v):
    """z3 Bool for Python truthiness of v."""
    if isinstance(v, VBool):
        return v.e
    if isinstance(v, VInt):
        return v.e != 0
    if v is VNone:
        return z3.BoolVal(False)
    if isinstance(v, VStr):
        return z3.Length(v.e) > 0
    if isinstance(v, VTuple):
        return z3.BoolVal(len(v.items) > 0)
    if isinstance(v, VBox):
        e = v.e
        return z3.Or(
            z3.And(Val.is_IntV(e), Val.ival(e) != 0),
            z3.And(Val.is_StrV(e), z3.Length(Val.sval(e)) > 0),
            z3.And(Val.is_BytesV(e), z3.Length(Val.bval(e)) > 0),
            z3.And(Val.is_BoolV(e), Val.tval(e)))
    if isinstance(v, VRef):
        c = ctx.cell(v)
        if isinstance(c, ListCell):
            return z3.BoolVal(len(c.items) > 0)
        if isinstance(c, SeqCell):
            return z3.Length(c.e) > 0
        if isinstance(c, DictCell):
            if c.sym is None:
                return z3.BoolVal(len(c.items) > 0)
            raise Unsupported('truthiness of symbolic dict')
        return z3.BoolVal(True)
    if isinstance(v, VMatch):
        return z3.BoolVal(True)
    if isinstance(v, VConc):
        return z3.BoolVal(bool(v.py))
    if isinstance(v, (VFunc, VExc)):
        return z3.BoolVal(True)
    raise Unsupported('truthiness of %r' % (v,))


def to_bool(ctx, v):
    return ctx.branch(truth(ctx, v))


def eq(ctx, a, b):
    """z3 Bool for Python a == b (scalars, tuples, concrete containers)."""
    if isinstance(a, VBox) or isinstance(b, VBox):
        try:
            return box(a) == box(b)
        except Unsupported:
            return z3.BoolVal(False)
    if a is VNone or b is VNone:
        return z3.BoolVal(a is b)
    if isinstance(a, VStr) and isinstance(b, VStr):
        if a.b != b.b:
            return z3.BoolVal(False)
        return a.e == b.e
    if isinstance(a, (VInt, VBool)) and isinstance(b, (VInt, VBool)):
        return as_int(a) == as_int(b)
    if isinstance(a, VTuple) and isinstance(b, VTuple):
        if len(a.items) != len(b.items):
            return z3.BoolVal(False)
        return z3.And([eq(ctx, x, y) for x, y in zip(a.items, b.items)]
                      + [z3.BoolVal(True)])
    if isinstance(a, VConc) and isinstance(b, VConc):
        return z3.BoolVal(a.py == b.py)
    if isinstance(a, VRef) and isinstance(b, VRef):
        ca, cb = ctx.cell(a), ctx.cell(b)
        if isinstance(ca, SeqCell) and isinstance(cb, SeqCell):
            return ca.e == cb.e
        if isinstance(ca, ListCell) and isinstance(cb, ListCell):
            if len(ca.items) != len(cb.items):
                return z3.BoolVal(False)
            return z3.And([eq(ctx, x, y)
                           for x, y in zip(ca.items, cb.items)]
                          + [z3.BoolVal(True)])
        if isinstance(ca, SeqCell) and isinstance(cb, ListCell):
            ca, cb = cb, ca
        if isinstance(ca, ListCell) and isinstance(cb, SeqCell):
            conj = [z3.Length(cb.e) == len(ca.items)]
            for i, it in enumerate(ca.items):
                conj.append(eq(ctx, it, seq_elem(cb, cb.e[i])))
            return z3.And(conj)
        if isinstance(ca, DictCell) and isinstance(cb, DictCell) \
                and ca.sym is None and cb.sym is None:
            if set(ca.items) != set(cb.items):
                return z3.BoolVal(False)
            return z3.And([eq(ctx, ca.items[k], cb.items[k])
                           for k in ca.items] + [z3.BoolVal(True)])
        if a.ref == b.ref:
            return z3.BoolVal(True)
        raise Unsupported('== on heap objects')
    if type(a) is not type(b):
        # different static types: never equal (bool/int handled above)
        return z3.BoolVal(False)
    raise Unsupported('== on %r and %r' % (a, b))


def as_int(v):
    if isinstance(v, VInt):
        return v.e
    if isinstance(v, VBool):
        return z3.If(v.e, z3.IntVal(1), z3.IntVal(0))
    raise Unsupported('expected int, got %r' % (v,))


def seq_elem(cell, e):
    if cell.elem == 'bytes':
        return VStr(e, True)
    if cell.elem == 'str':
        return VStr(e, False)
    if cell.elem == 'int':
        return VInt(e)
    if cell.elem == 'box':
        return VBox(e)
    raise Unsupported('sequence element kind %s' % cell.elem)


def elem_sort(kind):
    return {'bytes': z3.StringSort(), 'str': z3.StringSort(),
            'int': z3.IntSort(), 'box': Val}[kind]


def elem_expr(kind, v):
    """V -> z3 expr for storing into a Seq of that elem kind."""
    if kind in ('bytes', 'str'):
        if not isinstance(v, VStr) or v.b != (kind == 'bytes'):
            raise Unsupported('storing %r in list of %s' % (v, kind))
        return v.e
    if kind == 'int':
        return as_int(v)
    if kind == 'box':
        return box(v)
    raise Unsupported(kind)


def norm_index(i, n):
    """Python index normalisation for slices: clamp to [0, n]."""
    j = z3.If(i < 0, i + n, i)
    return z3.If(j < 0, z3.IntVal(0), z3.If(j > n, n, j))


def slice_str(e, lo, hi):
    n = z3.Length(e)
    a = norm_index(lo, n) if lo is not None else z3.IntVal(0)
    b = norm_index(hi, n) if hi is not None else n
    ln = z3.If(b - a < 0, z3.IntVal(0), b - a)
    return z3.simplify(z3.SubString(e, a, ln))


def unbox_choose(ctx, v, allowed=('none', 'int', 'str', 'bytes', 'bool')):
    """Fork on the dynamic type of a boxed value; returns an unboxed V."""
    if not isinstance(v, VBox):
        return v
    e = z3.simplify(v.e)
    tests = [('none', Val.is_NoneV(e), lambda: VNone),
             ('int', Val.is_IntV(e), lambda: VInt(Val.ival(e))),
             ('str', Val.is_StrV(e), lambda: VStr(Val.sval(e), False)),
             ('bytes', Val.is_BytesV(e), lambda: VStr(Val.bval(e), True)),
             ('bool', Val.is_BoolV(e), lambda: VBool(Val.tval(e)))]
    tests = [t for t in tests if t[0] in allowed]
    # constructor application is decided syntactically
    for name, cond, mk in tests:
        if z3.is_true(z3.simplify(cond)):
            r = mk()
            if isinstance(r, (VInt, VStr, VBool)):
                r.e = z3.simplify(r.e)
            return r
    d = ctx.choose(len(tests), [t[1] for t in tests])
    r = tests[d][2]()
    if isinstance(r, (VInt, VStr, VBool)):
        r.e = z3.simplify(r.e)
    return r
