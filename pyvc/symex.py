"""pyvc symbolic executor: forward symbolic execution of the *real* function
ASTs, one run per path (decision-prefix re-execution), producing verification
conditions that are discharged by the SMT portfolio.

See DESIGN.md sections 1-3.  Anything outside the subset raises Unsupported,
which makes the function's verdict UNDECIDED - never silently skipped.
"""
import ast
import builtins as pybuiltins
import os
import sys
import types

import z3

from . import smt
from .values import (V, VInt, VBool, VNone, VNoneT, VStr, VTuple, VBox, VRef,
                     VConc, VFunc, VExc, VMatch, Val, Cell, ListCell, SeqCell,
                     DictCell, ObjCell, StreamCell, Unsupported, box, from_py,
                     SeqString, SeqVal, L_len, L_at)


class PathEnd(Exception):
    """The current path is abandoned (infeasible or cut at a back edge)."""


class _Return(Exception):
    def __init__(self, value):
        self.value = value


class _Break(Exception):
    pass


class _Continue(Exception):
    pass


class PyRaise(Exception):
    """A Python-level exception propagating in the analysed program."""

    def __init__(self, exc, where=None):
        self.exc = exc
        self.where = where


class Obligation(object):
    def __init__(self, oid, label, assumptions, goal, where, path, kind):
        self.id = oid
        self.label = label
        self.assumptions = list(assumptions)
        self.goal = goal
        self.where = where
        self.path = path
        self.kind = kind
        self.result = None
        self.n_pc = len(self.assumptions)

    def smt2(self):
        return smt.to_smt2(self.assumptions + [z3.Not(self.goal)])

    def fingerprints(self):
        return [fingerprint(a) for a in self.assumptions]

    def slices(self):
        """Relevance slices of the assumptions (dropping assumptions is
        sound): direct, two-step and transitive cone of the goal's symbols.
        Returns list of (name, smt2 text), smallest first, full VC last."""
        syms = [symbols_of(a) for a in self.assumptions]
        out = []
        # EUF abstraction of the whole VC (fast, immune to string-solver
        # noise; needs the string steps as lemma instances)
        try:
            from .abstraction import abstract_all
            out.append(('euf', smt.to_smt2(abstract_all(
                self.assumptions + [z3.Not(self.goal)]))))
        except ValueError:
            pass
        hint = HINTS.get(strip_path(self.label_key()))
        if hint:
            fps = self.fingerprints()
            sel = [i for i, f in enumerate(fps) if f in hint]
            if sel and len(sel) < len(self.assumptions):
                out.append(('hint', smt.to_smt2(
                    [self.assumptions[i] for i in sel]
                    + [z3.Not(self.goal)])))
        mh = MANUAL_HINTS.get(self.label_key())
        if mh:
            sel = []
            for i, a_ in enumerate(self.assumptions):
                txt = str(a_)
                if any(x in txt for x in mh.get('exclude', ())):
                    continue
                if any(x in txt for x in mh.get('include', ())):
                    sel.append(i)
            if sel and len(sel) < len(self.assumptions):
                out.append(('manual', smt.to_smt2(
                    [self.assumptions[i] for i in sel]
                    + [z3.Not(self.goal)])))
        seen_sizes = set()
        cone = set(symbols_of(self.goal))
        if not cone and self.assumptions:
            # goal False (exception freedom): the path must be infeasible;
            # start from the branch condition that led here
            cone = set(symbols_of(self.assumptions[self.n_pc - 1]))
        picked = set()
        picked_first = None
        for depth in (1, 2, 3):
            changed = False
            new = set(cone)
            for i, sy in enumerate(syms):
                if i not in picked and sy & cone:
                    picked.add(i)
                    new |= sy
                    changed = True
            cone = new
            if picked_first is None:
                picked_first = set(picked)
            if len(picked) not in seen_sizes and \
                    len(picked) < len(self.assumptions):
                seen_sizes.add(len(picked))
                sel = [self.assumptions[i] for i in sorted(picked)]
                out.append(('slice%d' % depth,
                            smt.to_smt2(sel + [z3.Not(self.goal)])))
            if not changed:
                break
        # closed slices: only assumptions whose constants all lie inside the
        # cone reached after d steps (facts that would drag in unrelated
        # variables are left out)
        def only_consts(sy):
            return set(x for x in sy if '!' in x)
        cone_c = only_consts(symbols_of(self.goal))
        if not cone_c and self.assumptions:
            cone_c = only_consts(symbols_of(
                self.assumptions[self.n_pc - 1]))
        consts = [only_consts(sy) for sy in syms]
        closed = []
        for depth in (1, 2):
            grow = set(cone_c)
            for sy in consts:
                if sy & cone_c:
                    grow |= sy
            cone_c = grow
            sel = [i for i, sy in enumerate(consts)
                   if sy and sy <= cone_c]
            if sel and len(sel) < len(self.assumptions):
                closed.append(('closed%d' % depth, smt.to_smt2(
                    [self.assumptions[i] for i in sel]
                    + [z3.Not(self.goal)])))
        out = closed[:1] + out[:1] + closed[1:] + out[1:]
        # random sub-slices: the solvers are often confused by the sheer
        # number of irrelevant facts; any subset of the assumptions is sound
        import random
        import zlib
        # (deterministic across processes: str hashes are salted per run)
        rng = random.Random(zlib.crc32(self.label.encode('utf-8')))
        base = set(picked_first) if picked_first else set()
        n = len(self.assumptions)
        for t in range(6):
            sel = sorted(base | set(i for i in range(n)
                                    if rng.random() < (0.5 if t < 4 else 0.3)))
            if len(sel) < n:
                out.append(('rand%d' % t, smt.to_smt2(
                    [self.assumptions[i] for i in sel]
                    + [z3.Not(self.goal)])))
        seeds = ','.join(str(i) for i in sorted(base))
        out.append(('cegar', '; seeds: %s\n%s' % (seeds, self.smt2())))
        out.append(('full', self.smt2()))
        return out

    def label_key(self):
        return '%s#%s' % (getattr(self, 'func', ''), self.label)

    def trivially_true(self):
        g = z3.simplify(self.goal)
        return z3.is_true(g)


_sym_cache = {}
_nth_cache = {}


def has_nth(e):
    key = e.get_id()
    r = _nth_cache.get(key)
    if r is not None:
        return r[0]
    r = False
    stack = [e]
    seen = set()
    while stack:
        x = stack.pop()
        i = x.get_id()
        if i in seen:
            continue
        seen.add(i)
        if z3.is_app(x):
            if x.decl().kind() == z3.Z3_OP_SEQ_NTH:
                r = True
                break
            stack.extend(x.children())
        elif z3.is_quantifier(x):
            stack.append(x.body())
    # (the expression is kept alive with the entry: z3 re-uses the ids of
    # collected ASTs, an id-keyed cache must own what it is keyed by)
    _nth_cache[key] = (r, e)
    return r


def simp(e):
    """z3.simplify, except that terms with seq.nth are kept as written
    unless they simplify to a constant (z3 expands nth into internal
    in-range / out-of-range symbols that bloat the VCs)."""
    s = z3.simplify(e)
    if z3.is_true(s) or z3.is_false(s) or not has_nth(e):
        return s
    return e



def symbols_of(e):
    """Uninterpreted constants / functions occurring in e."""
    key = e.get_id()
    r = _sym_cache.get(key)
    if r is not None:
        return r[0]
    out = set()
    stack = [e]
    seen = set()
    while stack:
        x = stack.pop()
        i = x.get_id()
        if i in seen:
            continue
        seen.add(i)
        if z3.is_app(x):
            d = x.decl()
            if d.kind() == z3.Z3_OP_UNINTERPRETED:
                out.add(d.name())
            stack.extend(x.children())
        elif z3.is_quantifier(x):
            stack.append(x.body())
    r = frozenset(out)
    _sym_cache[key] = (r, e)
    return r


import hashlib as _hashlib
import re as _re

HINTS = {}      # 'function#label' -> set of assumption fingerprints
MANUAL_HINTS = {}   # 'function#label' -> {'include': [...], 'exclude': [...]}
_fp_cache = {}


def fingerprint(e):
    """Stable name of an assumption: its text with the fresh-name counters
    removed (proof hints refer to assumptions by fingerprint)."""
    key = e.get_id()
    r = _fp_cache.get(key)
    if r is None:
        txt = _re.sub(r'!\d+', '', e.sexpr())
        r = (_hashlib.sha1(txt.encode('utf-8')).hexdigest()[:12], e)
        _fp_cache[key] = r
    return r[0]


def strip_path(label):
    return label


def load_hints(path):
    import json
    import os
    if os.path.exists(path):
        with open(path) as f:
            for k, v in json.load(f).items():
                HINTS.setdefault(k, set()).update(v)


def _has_var(t):
    stack = [t]
    seen = set()
    while stack:
        x = stack.pop()
        if x.get_id() in seen:
            continue
        seen.add(x.get_id())
        if z3.is_var(x):
            return True
        if z3.is_app(x):
            stack.extend(x.children())
    return False


class Frame(object):
    def __init__(self, fi, module_globals):
        self.fi = fi
        self.locals = {}
        self.globals = module_globals
        self.loop_ord = 0
        self.call_ord = 0


_feas_cache = {}


class Ctx(object):
    def __init__(self, engine, prefix):
        self.engine = engine
        self.prefix = list(prefix)
        self.taken = []
        self.alternatives = []
        self.pc = []
        self.heap = {}
        self.next_ref = 0
        self.fresh_n = 0
        self.obligations = []
        self.spec_mode = 0
        self.frames = []
        self.yielded = []
        self.ghost = {}
        self.notes = []
        self.trace = []
        self.schemas = []
        self.inst_terms = []

    # -- naming ---------------------------------------------------------
    def fresh(self, base, sort):
        self.fresh_n += 1
        return z3.Const('%s!%d' % (base, self.fresh_n), sort)

    def fresh_int(self, base='i'):
        return self.fresh(base, z3.IntSort())

    def fresh_str(self, base='s'):
        return self.fresh(base, z3.StringSort())

    def fresh_bool(self, base='b'):
        return self.fresh(base, z3.BoolSort())

    # -- heap -------------------------------------------------------------
    def alloc(self, cell):
        self.next_ref += 1
        self.heap[self.next_ref] = cell
        return VRef(self.next_ref)

    def cell(self, v):
        if not isinstance(v, VRef):
            raise Unsupported('expected heap reference, got %r' % (v,))
        return self.heap[v.ref]

    # -- path condition -----------------------------------------------------
    def assume(self, cond):
        cond = simp(cond)
        if z3.is_true(cond):
            return
        if z3.is_false(cond):
            if os.environ.get('PYVC_DEBUG'):
                import traceback
                print('PATHEND: assumption is false', file=sys.stderr)
                traceback.print_stack(limit=8, file=sys.stderr)
            raise PathEnd()
        if z3.is_quantifier(cond) and cond.is_forall() and \
                cond.num_vars() == 1 and cond.var_sort(0) == z3.IntSort():
            v = self.fresh_int('q')
            self.assume_forall(v, z3.substitute_vars(cond.body(), v))
            return
        if z3.is_and(cond):
            for ch in cond.children():
                self.assume(ch)
            return
        self.pc.append(cond)

    def assume_forall(self, var, body, defaults=()):
        """A universally quantified fact, kept as a schema and instantiated
        at obligation time (quantifier-free VCs)."""
        self.schemas.append((var, body, list(defaults)))

    def feasible(self, extra):
        key = (tuple(a.get_id() for a in self.pc), extra.get_id())
        r = _feas_cache.get(key)
        if r is None:
            r = (smt.quick_check(self.pc + [extra],
                                 timeout_ms=self.engine.feas_timeout_ms),
                 list(self.pc), extra)     # owns its keys (ids are re-used)
            _feas_cache[key] = r
        return r[0] != smt.UNSAT

    def decide(self, cond):
        """Path-sensitive simplification: True / False when the path
        condition (plus default instances of the quantified facts) settles
        `cond`, else None.  Only `unsat` answers are used (sound)."""
        cond = simp(cond)
        if z3.is_true(cond):
            return True
        if z3.is_false(cond):
            return False
        base = self.pc + self.instantiate_schemas([], light=True)
        key = (tuple(a.get_id() for a in base), cond.get_id(), 'decide')
        r = _feas_cache.get(key)
        if r is None:
            r = 'none'
            if smt.quick_check(base + [z3.Not(cond)], 150) == smt.UNSAT:
                r = 'true'
            elif smt.quick_check(base + [cond], 150) == smt.UNSAT:
                r = 'false'
            r = (r, list(base), cond)     # owns its keys
            _feas_cache[key] = r
        return {'true': True, 'false': False, 'none': None}[r[0]]

    def ite(self, cond, a, b):
        d = self.decide(cond)
        if d is True:
            return a
        if d is False:
            return b
        return z3.If(cond, a, b)

    def choose(self, n, conds=None, label=''):
        """n-ary decision; conds (optional) are the z3 guards of the
        alternatives, used for feasibility pruning and added to pc."""
        idx = len(self.taken)
        if idx < len(self.prefix):
            d = self.prefix[idx]
        else:
            feas = []
            for k in range(n):
                if conds is None or self.feasible(conds[k]):
                    feas.append(k)
            if not feas:
                raise PathEnd()
            d = feas[0]
            for k in feas[1:]:
                self.alternatives.append(self.taken + [k])
        self.taken.append(d)
        if conds is not None:
            self.assume(conds[d])
        return d

    def branch(self, cond):
        cond = simp(cond)
        if z3.is_true(cond):
            return True
        if z3.is_false(cond):
            return False
        if self.spec_mode:
            raise Unsupported('control-flow branch on a symbolic condition '
                              'inside a specification expression')
        d = self.choose(2, [cond, z3.Not(cond)])
        return d == 0

    # -- obligations ----------------------------------------------------------
    def oblige(self, label, goal, where='', kind='post'):
        goal_s = simp(goal)
        extra = []
        skolems = []
        # skolemise universally quantified goals: proving (A => forall j. P)
        # is proving P(j0) under A for a fresh j0
        for _ in range(4):
            if z3.is_implies(goal_s) and z3.is_quantifier(goal_s.arg(1)):
                extra.append(goal_s.arg(0))
                goal_s = goal_s.arg(1)
            if z3.is_quantifier(goal_s) and goal_s.is_forall():
                consts = [self.fresh('sk_' + goal_s.var_name(i),
                                     goal_s.var_sort(i))
                          for i in range(goal_s.num_vars())]
                skolems.extend(consts)
                goal_s = simp(z3.substitute_vars(
                    goal_s.body(), *reversed(consts)))
            else:
                break
        assumptions = list(self.pc) + extra
        assumptions += self.instantiate_schemas(skolems, goal_s)
        ob = Obligation(None, label, assumptions, goal_s, where,
                        list(self.taken), kind)
        ob.n_pc = len(self.pc)
        self.obligations.append(ob)
        return ob

    def at_pairs(self, exprs):
        """(list term id -> index terms) for every At_*(l, t) in exprs."""
        pairs = {}
        stack = list(exprs)
        visited = set()
        while stack:
            x = stack.pop()
            if x.get_id() in visited:
                continue
            visited.add(x.get_id())
            if z3.is_app(x):
                if x.decl().name().startswith('At_') and x.num_args() == 2:
                    t = x.arg(1)
                    if not z3.is_var(t) and not _has_var(t):
                        d = pairs.setdefault(x.arg(0).get_id(), {})
                        d[t.get_id()] = t
                stack.extend(x.children())
            elif z3.is_quantifier(x):
                stack.append(x.body())
        return pairs

    def schema_lists(self, var, body):
        """ids of the list terms indexed by the schema variable."""
        out = set()
        stack = [body]
        visited = set()
        while stack:
            x = stack.pop()
            if x.get_id() in visited:
                continue
            visited.add(x.get_id())
            if z3.is_app(x):
                if x.decl().name().startswith('At_') and x.num_args() == 2:
                    out.add(x.arg(0).get_id())
                stack.extend(x.children())
        return out

    def instantiate_schemas(self, skolems, goal=None, light=False):
        """Quantifier instantiation by matching: a schema about list l is
        instantiated at t when At(l, t) occurs in the goal or the path
        condition, at the goal's own skolem constants, and at the schema's
        default terms."""
        out = []
        sk_terms = [t for t in skolems if t.sort() == z3.IntSort()]
        pairs = {}
        if light:
            # path-sensitive simplification: default instances only (cached)
            key = (len(self.schemas), tuple(t.get_id() for t in sk_terms))
            cached = getattr(self, '_light_cache', None)
            if cached and cached[0] == key:
                return cached[1]
            for var, body, defaults in self.schemas:
                for t in list(sk_terms) + list(defaults):
                    out.append(z3.substitute(body, (var, t)))
            self._light_cache = (key, out)
            return out
        if self.schemas:
            pairs = self.at_pairs(([goal] if goal is not None else [])
                                  + self.pc)
        seen_global = set()
        # two rounds: instances may introduce new At-terms
        for _round in range(2):
            new_exprs = []
            for var, body, defaults in self.schemas:
                lists_ = self.schema_lists(var, body)
                terms = list(sk_terms) + list(defaults)
                for lid in lists_:
                    terms += list(pairs.get(lid, {}).values())
                if not lists_:
                    terms += list(self.inst_terms)
                for t in terms:
                    key = (body.get_id(), t.get_id())
                    if key in seen_global:
                        continue
                    seen_global.add(key)
                    inst = z3.substitute(body, (var, t))
                    out.append(inst)
                    new_exprs.append(inst)
            if not new_exprs:
                break
            more = self.at_pairs(new_exprs)
            grew = False
            for lid, d in more.items():
                tgt = pairs.setdefault(lid, {})
                for tid, t in d.items():
                    if tid not in tgt and len(tgt) < 8:
                        tgt[tid] = t
                        grew = True
            if not grew:
                break
        return out

    @property
    def frame(self):
        return self.frames[-1]


def where_of(fi, node):
    return '%s:%s' % (fi.file, getattr(node, 'lineno', '?'))


# ---------------------------------------------------------------------------
# truthiness / equality / boxing helpers
# ---------------------------------------------------------------------------
def truth(ctx, v):
    """z3 Bool for Python truthiness of v."""
    if isinstance(v, VBool):
        return v.e
    if isinstance(v, VInt):
        return v.e != 0
    if v is VNone:
        return z3.BoolVal(False)
    if isinstance(v, VStr):
        return z3.Length(v.e) > 0
    if isinstance(v, VTuple):
        return z3.BoolVal(len(v.items) > 0)
    if isinstance(v, VBox):
        e = v.e
        return z3.Or(
            z3.And(Val.is_IntV(e), Val.ival(e) != 0),
            z3.And(Val.is_StrV(e), z3.Length(Val.sval(e)) > 0),
            z3.And(Val.is_BytesV(e), z3.Length(Val.bval(e)) > 0),
            z3.And(Val.is_BoolV(e), Val.tval(e)))
    if isinstance(v, VRef):
        c = ctx.cell(v)
        if isinstance(c, ListCell):
            return z3.BoolVal(len(c.items) > 0)
        if isinstance(c, SeqCell):
            return L_len(c.e) > 0
        if isinstance(c, DictCell):
            if c.sym is None:
                return z3.BoolVal(len(c.items) > 0)
            if getattr(c, 'nonempty', None) is not None:
                return c.nonempty
            raise Unsupported('truthiness of symbolic dict')
        return z3.BoolVal(True)
    if isinstance(v, VMatch):
        return z3.BoolVal(True)
    if isinstance(v, VConc):
        return z3.BoolVal(bool(v.py))
    if isinstance(v, (VFunc, VExc)):
        return z3.BoolVal(True)
    raise Unsupported('truthiness of %r' % (v,))


def to_bool(ctx, v):
    return ctx.branch(truth(ctx, v))


def eq(ctx, a, b):
    """z3 Bool for Python a == b (scalars, tuples, concrete containers)."""
    if isinstance(a, VBox) or isinstance(b, VBox):
        try:
            return box(a) == box(b)
        except Unsupported:
            return z3.BoolVal(False)
    if a is VNone or b is VNone:
        return z3.BoolVal(a is b)
    if isinstance(a, VStr) and isinstance(b, VStr):
        if a.b != b.b:
            return z3.BoolVal(False)
        return a.e == b.e
    if isinstance(a, (VInt, VBool)) and isinstance(b, (VInt, VBool)):
        return as_int(a) == as_int(b)
    if isinstance(a, VTuple) and isinstance(b, VTuple):
        if len(a.items) != len(b.items):
            return z3.BoolVal(False)
        return z3.And([eq(ctx, x, y) for x, y in zip(a.items, b.items)]
                      + [z3.BoolVal(True)])
    if isinstance(a, VConc) and isinstance(b, VConc):
        return z3.BoolVal(a.py == b.py)
    if isinstance(a, VRef) and isinstance(b, VRef):
        ca, cb = ctx.cell(a), ctx.cell(b)
        if isinstance(ca, SeqCell) and isinstance(cb, SeqCell):
            if ca.e.eq(cb.e):
                return z3.BoolVal(True)
            from .lists import l_equal
            return l_equal(ctx, ca.e, cb.e)
        if isinstance(ca, ListCell) and isinstance(cb, ListCell):
            if len(ca.items) != len(cb.items):
                return z3.BoolVal(False)
            return z3.And([eq(ctx, x, y)
                           for x, y in zip(ca.items, cb.items)]
                          + [z3.BoolVal(True)])
        if isinstance(ca, SeqCell) and isinstance(cb, ListCell):
            ca, cb = cb, ca
        if isinstance(ca, ListCell) and isinstance(cb, SeqCell):
            conj = [L_len(cb.e) == len(ca.items)]
            for i, it in enumerate(ca.items):
                conj.append(eq(ctx, it, seq_elem(cb, L_at(cb.e, i))))
            return z3.And(conj)
        if isinstance(ca, DictCell) and isinstance(cb, DictCell) \
                and ca.sym is None and cb.sym is None:
            if set(ca.items) != set(cb.items):
                return z3.BoolVal(False)
            return z3.And([eq(ctx, ca.items[k], cb.items[k])
                           for k in ca.items] + [z3.BoolVal(True)])
        if isinstance(ca, ObjCell) and getattr(ctx, 'it', None) is not None:
            # user-defined equality of a repository class
            it = ctx.it
            for k in ca.cls.__mro__:
                if '__eq__' in k.__dict__ and k is not object:
                    qn = '%s.%s.__eq__' % (k.__module__, k.__qualname__)
                    r = it.engine.call_inline(it, qn, [a, b], {})
                    return truth(ctx, r)
        if a.ref == b.ref:
            return z3.BoolVal(True)
        if isinstance(ca, ObjCell) or isinstance(cb, ObjCell):
            return z3.BoolVal(False)     # object identity
        raise Unsupported('== on heap objects')
    if getattr(a, 'tname', '') == 'method' or \
            getattr(b, 'tname', '') == 'method':
        raise Unsupported('== on a bound method / unmodelled attribute')
    if type(a) is not type(b):
        # different static types: never equal (bool/int handled above)
        return z3.BoolVal(False)
    raise Unsupported('== on %r and %r' % (a, b))


def as_int(v):
    if isinstance(v, VInt):
        return v.e
    if isinstance(v, VBool):
        return z3.If(v.e, z3.IntVal(1), z3.IntVal(0))
    raise Unsupported('expected int, got %r' % (v,))


def seq_elem(cell, e):
    if cell.elem == 'bytes':
        return VStr(e, True)
    if cell.elem == 'str':
        return VStr(e, False)
    if cell.elem == 'int':
        return VInt(e)
    if cell.elem == 'box':
        return VBox(e)
    if cell.elem == 'rec':
        from .values import VRecId
        return VRecId(e)
    raise Unsupported('sequence element kind %s' % cell.elem)


def elem_sort(kind):
    return {'bytes': z3.StringSort(), 'str': z3.StringSort(),
            'int': z3.IntSort(), 'box': Val, 'rec': z3.IntSort()}[kind]


def elem_expr(kind, v):
    """V -> z3 expr for storing into a Seq of that elem kind."""
    if kind in ('bytes', 'str'):
        if not isinstance(v, VStr) or v.b != (kind == 'bytes'):
            raise Unsupported('storing %r in list of %s' % (v, kind))
        return v.e
    if kind == 'int':
        return as_int(v)
    if kind == 'box':
        return box(v)
    raise Unsupported(kind)


def norm_index(i, n, ctx=None):
    """Python index normalisation for slices: clamp to [0, n]."""
    if ctx is None:
        j = z3.If(i < 0, i + n, i)
        return z3.If(j < 0, z3.IntVal(0), z3.If(j > n, n, j))
    j = ctx.ite(i < 0, i + n, i)
    return ctx.ite(j < 0, z3.IntVal(0), ctx.ite(j > n, n, j))


def slice_str(e, lo, hi, ctx=None):
    n = z3.Length(e)
    a = norm_index(lo, n, ctx) if lo is not None else z3.IntVal(0)
    b = norm_index(hi, n, ctx) if hi is not None else n
    if ctx is None:
        ln = z3.If(b - a < 0, z3.IntVal(0), b - a)
    else:
        ln = ctx.ite(b - a < 0, z3.IntVal(0), b - a)
    return z3.SubString(e, a, ln)


def unbox_choose(ctx, v, allowed=('none', 'int', 'str', 'bytes', 'bool')):
    """Fork on the dynamic type of a boxed value; returns an unboxed V."""
    if not isinstance(v, VBox):
        return v
    e = z3.simplify(v.e)
    tests = [('none', Val.is_NoneV(e), lambda: VNone),
             ('int', Val.is_IntV(e), lambda: VInt(Val.ival(e))),
             ('str', Val.is_StrV(e), lambda: VStr(Val.sval(e), False)),
             ('bytes', Val.is_BytesV(e), lambda: VStr(Val.bval(e), True)),
             ('bool', Val.is_BoolV(e), lambda: VBool(Val.tval(e)))]
    tests = [t for t in tests if t[0] in allowed]
    # If(c, Ctor(a), Ctor(b)): fork on c itself and recurse (clean terms)
    if z3.is_app(e) and e.decl().kind() == z3.Z3_OP_ITE:
        c, x, y = e.children()
        if ctx.branch(c):
            return unbox_choose(ctx, VBox(x), allowed)
        return unbox_choose(ctx, VBox(y), allowed)
    # constructor application is decided syntactically
    for name, cond, mk in tests:
        if z3.is_true(z3.simplify(cond)):
            r = mk()
            if isinstance(r, (VInt, VStr, VBool)):
                r.e = z3.simplify(r.e)
            return r
    d = ctx.choose(len(tests), [t[1] for t in tests])
    r = tests[d][2]()
    if isinstance(r, (VInt, VStr, VBool)):
        r.e = z3.simplify(r.e)
    return r
