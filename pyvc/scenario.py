"""Scenario verification: a short driver program (calls of the real public
API, executed symbolically through the real ASTs - everything inlined or by
contract) followed by specification clauses that become obligations.  The
values are symbolic (all values), the shape of the object graph is the one
the driver builds (bounded in shape)."""
import ast
import time

import z3

from . import extract, verify
from .symex import Ctx, Frame, PathEnd, PyRaise, _Return, truth
from .interp import Interp
from .values import (V, VInt, VBool, VNone, VStr, VTuple, VBox, VRef, VConc,
                     VFunc, VExc, Val, ListCell, SeqCell, DictCell, ObjCell,
                     StreamCell, Unsupported, box)


def snap_value(ctx, v, seen=None):
    """Deep snapshot of everything reachable from v: nested python
    structure of z3 terms (heap graph flattened, cycles cut by ref id)."""
    seen = {} if seen is None else seen
    if isinstance(v, VRef):
        if v.ref in seen:
            return ('ref', seen[v.ref])
        seen[v.ref] = len(seen)
        c = ctx.cell(v)
        if isinstance(c, ObjCell):
            return ('obj', c.cls.__name__, seen[v.ref],
                    {k: snap_value(ctx, x, seen)
                     for k, x in sorted(c.attrs.items())})
        if isinstance(c, DictCell):
            if c.sym is not None:
                return ('symdict', c.sym[0], c.sym[1])
            return ('dict', {k: snap_value(ctx, x, seen)
                             for k, x in sorted(c.items.items(),
                                                key=lambda kv: str(kv[0]))},
                    seen[v.ref])
        if isinstance(c, ListCell):
            return ('list', [snap_value(ctx, x, seen) for x in c.items],
                    seen[v.ref])
        if isinstance(c, SeqCell):
            return ('seq', c.e)
        if isinstance(c, StreamCell):
            return ('stream', c.data, c.pos, c.closed)
        return ('cell', type(c).__name__)
    if isinstance(v, (VInt, VBool, VStr, VBox)) or v is VNone:
        try:
            return ('val', box(v))
        except Unsupported:
            return ('opaque', repr(v))
    if isinstance(v, VTuple):
        return ('tuple', [snap_value(ctx, x, seen) for x in v.items])
    if isinstance(v, VConc):
        return ('conc', repr(v.py)[:80])
    return ('opaque', type(v).__name__)


def normalise(s, ids=None):
    """Renumber cell ids by first occurrence in traversal order, so that two
    snapshots with the same sharing structure get the same numbers whatever
    else was allocated in between (None = a cell the specification made)."""
    ids = {} if ids is None else ids

    def num(i):
        if i is None:
            ids[object()] = len(ids)
            return len(ids) - 1
        if i not in ids:
            ids[i] = len(ids)
        return ids[i]
    if isinstance(s, tuple):
        if s[0] == 'ref':
            return ('ref', ids.get(s[1], ('unseen', s[1])))
        if s[0] == 'obj':
            n = num(s[2])
            return ('obj', s[1], n, normalise(s[3], ids))
        if s[0] in ('dict', 'list'):
            n = num(s[2] if len(s) > 2 else None)
            return (s[0], normalise(s[1], ids), n)
        return s
    if isinstance(s, dict):
        return {k: normalise(s[k], ids) for k in sorted(s, key=str)}
    if isinstance(s, list):
        return [normalise(x, ids) for x in s]
    return s


def snaps_equal(a, b):
    """z3 Bool: the two snapshots denote the same abstract state."""
    if type(a) is not type(b):
        return z3.BoolVal(False)
    if isinstance(a, tuple):
        if len(a) != len(b) or a[0] != b[0]:
            return z3.BoolVal(False)
        if a[0] == 'val':
            return a[1] == b[1]
        if a[0] == 'symdict':
            return z3.And(a[1] == b[1], a[2] == b[2])
        if a[0] in ('seq',):
            return z3.BoolVal(a[1].eq(b[1]))
        if a[0] == 'stream':
            return z3.And(a[1] == b[1], a[2] == b[2], a[3] == b[3])
        return z3.And([snaps_equal(x, y) for x, y in zip(a[1:], b[1:])]
                      + [z3.BoolVal(True)])
    if isinstance(a, dict):
        if set(a) != set(b):
            return z3.BoolVal(False)
        return z3.And([snaps_equal(a[k], b[k]) for k in a]
                      + [z3.BoolVal(True)])
    if isinstance(a, list):
        if len(a) != len(b):
            return z3.BoolVal(False)
        return z3.And([snaps_equal(x, y) for x, y in zip(a, b)]
                      + [z3.BoolVal(True)])
    return z3.BoolVal(a == b)


class VSnap(V):
    tname = 'snapshot'

    def __init__(self, s):
        self.s = s


def install(engine):
    sf = engine.spec_funcs

    def f_SNAP(it, args, kw):
        seen = {}
        return VSnap([snap_value(it.ctx, a, seen) for a in args])

    def f_SAME(it, args, kw):
        return VBool(snaps_equal(normalise(args[0].s),
                                 normalise(args[1].s)))

    def f_SYM_BOX(it, args, kw):
        return VBox(it.ctx.fresh('sym', Val))

    def f_SYM_STR(it, args, kw):
        return VStr(it.ctx.fresh_str('symstr'), False)

    def f_SYM_BYTES(it, args, kw):
        return VStr(it.ctx.fresh_str('symbytes'), True)

    def f_SYM_INT(it, args, kw):
        return VInt(it.ctx.fresh_int('symint'))

    def f_bool_of(it, args, kw):
        # truth value of any modelled value (e.g. a match object / None)
        from .symex import to_bool
        return VBool(to_bool(it.ctx, args[0]))

    def f_ASSUME(it, args, kw):
        it.ctx.assume(truth(it.ctx, args[0]))
        return VNone
    sf['SNAP'] = VFunc(f_SNAP, 'SNAP')
    sf['SAME'] = VFunc(f_SAME, 'SAME')
    for n, f in (('SYM_BOX', f_SYM_BOX), ('SYM_STR', f_SYM_STR),
                 ('SYM_BYTES', f_SYM_BYTES), ('SYM_INT', f_SYM_INT),
                 ('ASSUME', f_ASSUME), ('bool_of', f_bool_of)):
        sf[n] = VFunc(f, n)


class ScenarioVerdict(object):
    def __init__(self, name):
        self.name = name
        self.obligations = []
        self.undecided = []
        self.paths = 0
        self.exit_kinds = {}


def run_scenario(engine, name, modname, src, clauses, allowed=(),
                 max_paths=400, extra_modules=('pydiffx.errors', 'io',
                               'pydiffx.dom.writer', 'pydiffx.dom.reader')):
    """src: driver statements; clauses: [(label, expr)] evaluated in spec
    mode at the end of every path.  allowed: exception classes the driver
    may end with (then the clauses named 'on_raise' are checked)."""
    install(engine)
    module = extract.load_module(modname)[0]
    tree = ast.parse(src)
    fi = extract.FuncInfo.__new__(extract.FuncInfo)
    fi.qualname = 'scenario.' + name
    fi.modname = modname
    fi.module = module
    fi.node = ast.FunctionDef(name='scenario', args=ast.arguments(
        posonlyargs=[], args=[], kwonlyargs=[], kw_defaults=[], defaults=[]),
        body=tree.body, decorator_list=[], lineno=1, end_lineno=1,
        col_offset=0)
    fi.clsname = None
    fi.file = '<scenario %s>' % name
    fi.sha = ''
    fi.lines = (1, 1)
    c = verify.Contract(fi.qualname, params={})
    engine.contracts.setdefault(fi.qualname, c)
    verdict = ScenarioVerdict(name)
    work = [[]]
    seen = 0
    while work and seen < max_paths:
        prefix = work.pop()
        seen += 1
        ctx = Ctx(engine, prefix)
        it = Interp(ctx, engine)
        engine.cur_contract = c
        g = dict(module.__dict__)
        for mn in extra_modules:
            try:
                em = extract.load_module(mn)[0]
            except Exception:
                import importlib
                em = importlib.import_module(mn)
            for k2, v2 in em.__dict__.items():
                g.setdefault(k2, v2)
            g.setdefault(mn.rsplit('.', 1)[-1], em)
        fr = Frame(fi, g)
        engine.prep_frame(fr)
        fr.fi_assigned = set()
        ctx.frames.append(fr)
        ctx.ghost_env = {}
        ctx.old_vals = {}
        kind = 'end'
        try:
            ctx.spec_mode_names = True
            try:
                it.exec_block(tree.body)
            except PyRaise as pr:
                kind = 'raise:' + pr.exc.cls.__name__
                if not any(issubclass(pr.exc.cls, a) for a in allowed):
                    ctx.oblige('unexpected.%s' % pr.exc.cls.__name__,
                               z3.BoolVal(False), kind='exc-freedom',
                               where=pr.where or '')
            if kind == 'end' or kind.startswith('raise:'):
                for label, clause in clauses:
                    if kind.startswith('raise:') and \
                            not label.startswith('on_raise'):
                        continue
                    if kind == 'end' and label.startswith('on_raise'):
                        continue
                    ctx.oblige(label, engine.eval_clause(it, clause, {}),
                               kind='post')
                ctx.oblige('canary.' + kind, z3.BoolVal(False),
                           kind='canary')
        except PathEnd:
            kind = 'cut'
        except Unsupported as u:
            verdict.undecided.append('unsupported: %s' % u)
            kind = 'unsupported'
        finally:
            ctx.frames.pop()
        verdict.exit_kinds[kind] = verdict.exit_kinds.get(kind, 0) + 1
        for ob in ctx.obligations:
            ob.id = 'scenario.%s#%s@p%d' % (name, ob.label, seen)
            ob.func = fi.qualname
            verdict.obligations.append(ob)
        work.extend(ctx.alternatives)
    verdict.paths = seen
    return verdict
