"""Model of compiled-pattern calls (A-re): match / fullmatch with named groups
by existential decomposition, sub with a concrete replacement on a pattern of
the shape ^c{1,n}.
"""
import re
import re._constants as sre_c

import z3

from .values import (VInt, VBool, VNone, VStr, VTuple, VBox, VRef, VConc,
                     VMatch, Val, Unsupported, is_concrete_str, concrete_str,
                     SeqCell)
from .symex import unbox_choose, as_int
from . import regex as rx
from . import models as M

S = z3.StringVal


class Decomp(object):
    """Existential decomposition of a match of a concatenation-shaped
    pattern: text = parts concatenated; groups get fresh string variables."""

    def __init__(self, it, tr):
        self.it = it
        self.ctx = it.ctx
        self.tr = tr
        self.constraints = []
        self.groups = {}       # index -> (present: BoolRef, value: StringRef)

    def items(self, items):
        """Returns z3 string expression for the text matched by items."""
        parts = []
        n = len(items)
        for idx, (op, av) in enumerate(items):
            if op == sre_c.AT:
                continue      # edge anchors handled by the caller
            parts.append(self.one(op, av))
        if not parts:
            return S('')
        if len(parts) == 1:
            return parts[0]
        return z3.Concat(*parts)

    def has_group(self, items):
        for op, av in items:
            if op == sre_c.SUBPATTERN and av[0] is not None:
                return True
            if op == sre_c.SUBPATTERN and self.has_group(av[3]):
                return True
            if op in (sre_c.MAX_REPEAT, sre_c.MIN_REPEAT) and \
                    self.has_group(av[2]):
                return True
            if op == sre_c.BRANCH and any(self.has_group(a) for a in av[1]):
                return True
        return False

    def one(self, op, av):
        ctx = self.ctx
        if op == sre_c.SUBPATTERN:
            group, add_flags, del_flags, p = av
            if self.has_group(p):
                inner = self.items(p)
            else:
                inner = ctx.fresh_str('g%s' % group)
                self.constraints.append(
                    z3.InRe(inner, self.tr.lang_items(p)))
            if group is not None:
                self.groups[group] = (z3.BoolVal(True), inner)
            return inner
        if op in (sre_c.MAX_REPEAT, sre_c.MIN_REPEAT):
            lo, hi, p = av
            if self.has_group(p):
                if (lo, hi) != (0, 1):
                    raise Unsupported('repeated capturing group')
                present = ctx.fresh_bool('opt')
                before = dict(self.groups)
                sub = Decomp(self.it, self.tr)
                inner = sub.items(p)
                self.constraints.append(
                    z3.Implies(present, z3.And(sub.constraints + [
                        z3.BoolVal(True)])))
                for g, (pr, val) in sub.groups.items():
                    self.groups[g] = (z3.And(present, pr), val)
                return z3.If(present, inner, S(''))
        if op == sre_c.BRANCH and any(self.has_group(a) for a in av[1]):
            raise Unsupported('capturing group inside alternation')
        # group-free item: one fresh variable constrained by its language
        v = ctx.fresh_str('t')
        lang = self.tr.lang_one(op, av)
        # literals are kept literal (helps the solvers)
        if op == sre_c.LITERAL:
            return S(chr(av))
        self.constraints.append(z3.InRe(v, lang))
        return v


def pattern_call(it, pat, name, args, kwargs):
    ctx = it.ctx
    if isinstance(pat, tuple) and pat[0] == 'symbolic-pattern':
        raise Unsupported('call on symbolic pattern')
    tr = rx.Translator(pat)
    s = args[-1] if name == 'sub' else args[0]
    if isinstance(s, VBox):
        s = unbox_choose(ctx, s)
    if not isinstance(s, VStr) or s.b != tr.is_bytes:
        it.raise_(TypeError)
    if name in ('match', 'fullmatch'):
        lang = tr.match_lang(name)
        if not ctx.branch(z3.InRe(s.e, lang)):
            return VNone
        # matching is deterministic: the same pattern on the same subject
        # yields the same groups (one decomposition per path, shared)
        cache = ctx.ghost.setdefault('match_cache', {})
        key = (id(pat), name, s.e.get_id())
        hit = cache.get(key)
        if hit is None:
            hit = (build_match(it, tr, s, name), s.e, pat)   # owns its keys
            cache[key] = hit
        return hit[0]
    raise Unsupported('Pattern.%s' % name)


class LazyMatch(VMatch):
    """Match object whose group decomposition is only built when a group is
    requested (a match used only for its truth value adds nothing)."""

    def __init__(self, it, tr, s, mode):
        self.it = it
        self.tr = tr
        self.s = s
        self.mode = mode
        self._groups = None
        self.whole = None

    @property
    def groups(self):
        if self._groups is None:
            self._groups = decompose(self.it, self.tr, self.s, self.mode)
        return self._groups

    @groups.setter
    def groups(self, v):
        self._groups = v


def build_match(it, tr, s, mode):
    return LazyMatch(it, tr, s, mode)


def decompose(it, tr, s, mode):
    ctx = it.ctx
    d = Decomp(it, tr)
    body = d.items(tr.top_items())
    begin, end = tr.anchors()
    nl = S('\n')
    if mode == 'fullmatch' or end == 'Z':
        ctx.assume(s.e == body)
    elif end is None:
        rest = ctx.fresh_str('rest')
        ctx.assume(s.e == z3.Concat(body, rest))
    else:
        # '$': end of string, or just before a final newline (or, with
        # MULTILINE, before any newline)
        rest = ctx.fresh_str('rest')
        ctx.assume(s.e == z3.Concat(body, rest))
        if tr.flags & re.MULTILINE:
            ctx.assume(z3.Or(rest == S(''), z3.PrefixOf(nl, rest)))
        else:
            ctx.assume(z3.Or(rest == S(''), rest == nl))
    for c in d.constraints:
        ctx.assume(c)
    groups = {}
    byname = {v: k for k, v in tr.groupindex.items()}
    for g in range(1, tr.ngroups + 1):
        if g in d.groups:
            present, val = d.groups[g]
            # a group is a piece of the subject (helps length reasoning)
            ctx.assume(z3.Length(val) <= z3.Length(s.e))
            present = z3.simplify(present)
            if z3.is_true(present):
                v = VStr(val, tr.is_bytes)
            else:
                bx = Val.BytesV(val) if tr.is_bytes else Val.StrV(val)
                v = VBox(z3.If(present, bx, Val.NoneV))
        else:
            v = VNone
        groups[g] = v
        if g in byname:
            groups[byname[g]] = v
    groups[0] = VStr(body, tr.is_bytes)
    ctx.ghost.setdefault('matches', []).append((tr.pattern, s.e, d))
    return groups
