"""Operations on symbolic-length Python lists (uninterpreted list sort with
Len/At, see values.py).  Each operation returns a fresh list constant and
records the axioms relating it to its operands; quantified axioms are kept as
schemas (instantiated at obligation time)."""
import z3

from .values import L_len, L_at, SeqString, list_sort

F_ConcatAll = z3.Function('ConcatAll', SeqString, z3.StringSort())
F_Join = z3.Function('Join', z3.StringSort(), SeqString, z3.StringSort())


def fresh_list(ctx, sort, name='lst'):
    e = ctx.fresh(name, sort)
    ctx.assume(L_len(e) >= 0)
    return e


def _same_prefix(ctx, new, old, upto, shift=0):
    j = ctx.fresh_int('lj')
    ctx.assume_forall(j, z3.Implies(
        z3.And(j >= 0, j < upto), L_at(new, j) == L_at(old, j + shift)),
        defaults=[z3.IntVal(0), upto - 1])


def l_pop(ctx, e):
    """(new list, last element); caller has established Len(e) > 0."""
    n = L_len(e)
    new = fresh_list(ctx, e.sort(), 'popped')
    ctx.assume(L_len(new) == n - 1)
    _same_prefix(ctx, new, e, n - 1)
    last = L_at(e, n - 1)
    if e.sort() == SeqString:
        # snoc unfolding of ConcatAll (B5)
        ctx.assume(F_ConcatAll(e) == z3.Concat(F_ConcatAll(new), last))
    return new, last


def l_append(ctx, e, x):
    n = L_len(e)
    new = fresh_list(ctx, e.sort(), 'appended')
    ctx.assume(L_len(new) == n + 1)
    _same_prefix(ctx, new, e, n)
    ctx.assume(L_at(new, n) == x)
    if e.sort() == SeqString:
        ctx.assume(F_ConcatAll(new) == z3.Concat(F_ConcatAll(e), x))
    return new


def l_set(ctx, e, i, x):
    """e[i] = x with 0 <= i < Len(e) established."""
    n = L_len(e)
    if ctx.decide(i == n - 1) is True:
        base, _last = l_pop(ctx, e)
        return l_append(ctx, base, x)
    new = fresh_list(ctx, e.sort(), 'updated')
    ctx.assume(L_len(new) == n)
    ctx.assume(L_at(new, i) == x)
    j = ctx.fresh_int('lj')
    ctx.assume_forall(j, z3.Implies(
        z3.And(j >= 0, j < n, j != i), L_at(new, j) == L_at(e, j)),
        defaults=[z3.IntVal(0), n - 1])
    return new


def l_slice(ctx, e, a, ln):
    """e[a:a+ln] with 0 <= a, 0 <= ln, a+ln <= Len(e)."""
    n = L_len(e)
    if ctx.decide(z3.And(a == 0, ln == n - 1)) is True:
        new, _ = l_pop(ctx, e)
        return new
    new = fresh_list(ctx, e.sort(), 'slice')
    ctx.assume(L_len(new) == ln)
    _same_prefix(ctx, new, e, ln, shift=a)
    return new


def l_from_items(ctx, sort, exprs, name='lit'):
    new = fresh_list(ctx, sort, name)
    ctx.assume(L_len(new) == len(exprs))
    for i, x in enumerate(exprs):
        ctx.assume(L_at(new, i) == x)
    return new


def l_concat(ctx, pre_exprs, e, post_exprs):
    """[pre...] + e + [post...]"""
    cur = e
    if pre_exprs:
        n = L_len(e)
        new = fresh_list(ctx, e.sort(), 'cat')
        k = len(pre_exprs)
        ctx.assume(L_len(new) == n + k)
        for i, x in enumerate(pre_exprs):
            ctx.assume(L_at(new, i) == x)
        j = ctx.fresh_int('lj')
        ctx.assume_forall(j, z3.Implies(
            z3.And(j >= 0, j < n), L_at(new, j + k) == L_at(e, j)),
            defaults=[z3.IntVal(0), n - 1])
        cur = new
    for x in post_exprs:
        cur = l_append(ctx, cur, x)
    return cur


def l_concat2(ctx, e1, e2):
    n1, n2 = L_len(e1), L_len(e2)
    new = fresh_list(ctx, e1.sort(), 'cat')
    ctx.assume(L_len(new) == n1 + n2)
    _same_prefix(ctx, new, e1, n1)
    j = ctx.fresh_int('lj')
    ctx.assume_forall(j, z3.Implies(
        z3.And(j >= 0, j < n2), L_at(new, n1 + j) == L_at(e2, j)),
        defaults=[z3.IntVal(0), n2 - 1])
    return new


def l_equal(ctx, e1, e2):
    """Extensional equality as a formula (goal position)."""
    j = z3.Int('eqj')
    return z3.And(L_len(e1) == L_len(e2), z3.ForAll([j], z3.Implies(
        z3.And(j >= 0, j < L_len(e1)), L_at(e1, j) == L_at(e2, j))))
