"""Loops: cut at the sidecar invariant (init / preserve / variant / frame);
loops over concrete-length sequences are unrolled."""
import ast
import os
import sys

import z3

from .values import (VInt, VBool, VNone, VStr, VTuple, VBox, VRef, VConc,
                     ListCell, SeqCell, DictCell, ObjCell, StreamCell,
                     Unsupported, Val)
from .symex import (PathEnd, _Break, _Continue, truth, to_bool, seq_elem,
                    where_of, as_int)
from . import models
from .interp import assigned_names


def fresh_like(ctx, name, v):
    if isinstance(v, VInt):
        return VInt(ctx.fresh_int(name))
    if isinstance(v, VBool):
        return VBool(ctx.fresh_bool(name))
    if isinstance(v, VStr):
        return VStr(ctx.fresh_str(name), v.b)
    if isinstance(v, VBox):
        return VBox(ctx.fresh(name, Val))
    if v is VNone:
        return VNone
    if isinstance(v, VTuple):
        return VTuple([fresh_like(ctx, '%s_%d' % (name, i), x)
                       for i, x in enumerate(v.items)])
    if isinstance(v, VConc):
        return v
    raise Unsupported('cannot havoc %s = %r' % (name, v))


def havoc_cell_field(ctx, cell, field):
    if isinstance(cell, StreamCell):
        if field == 'pos':
            cell.pos = ctx.fresh_int('pos')
            return
        if field == 'data':
            cell.data = ctx.fresh_str('data')
            return
    if isinstance(cell, SeqCell) and field == 'e':
        from .lists import fresh_list
        cell.e = fresh_list(ctx, cell.e.sort(), 'seq')
        return
    if isinstance(cell, ObjCell):
        cell.attrs[field] = fresh_like(ctx, field, cell.attrs[field])
        return
    if isinstance(cell, DictCell) and field == 'sym':
        if cell.items:
            raise Unsupported('havoc of a record dict')
        cell.sym = (ctx.fresh('dmap', z3.ArraySort(z3.StringSort(), Val)),
                    ctx.fresh('ddom', z3.ArraySort(z3.StringSort(),
                                                   z3.BoolSort())))
        return
    raise Unsupported('cannot havoc %r.%s' % (cell, field))


def resolve_path(it, path):
    """'self._fp.pos' -> (cell, field)."""
    parts = path.split('.')
    v = it.ctx.frame.locals[parts[0]]
    for p in parts[1:-1]:
        v = it.getattr(v, p)
    cell = it.ctx.cell(v)
    return cell, parts[-1]


def snapshot_heap(ctx):
    snap = {}
    for ref, c in ctx.heap.items():
        if isinstance(c, StreamCell):
            snap[ref] = ('stream', c.data, c.pos, c.closed)
        elif isinstance(c, SeqCell):
            snap[ref] = ('seq', c.e)
        elif isinstance(c, ListCell):
            snap[ref] = ('list', list(c.items))
        elif isinstance(c, DictCell):
            snap[ref] = ('dict', dict(c.items), c.sym)
        elif isinstance(c, ObjCell):
            snap[ref] = ('obj', dict(c.attrs))
    return snap


def same_expr(a, b):
    if a is b:
        return True
    if isinstance(a, z3.ExprRef) and isinstance(b, z3.ExprRef):
        return a.eq(b)
    if hasattr(a, 'e') and hasattr(b, 'e') and type(a) is type(b):
        return a.e.eq(b.e)
    if isinstance(a, VRef) and isinstance(b, VRef):
        return a.ref == b.ref
    if isinstance(a, VTuple) and isinstance(b, VTuple):
        return len(a.items) == len(b.items) and all(
            same_expr(x, y) for x, y in zip(a.items, b.items))
    if isinstance(a, VConc) and isinstance(b, VConc):
        return a.py is b.py or a.py == b.py
    return a == b


def frame_obligations(it, snap, lc, label):
    """Every heap location not declared havoc'd by the loop contract must be
    syntactically unchanged at the back edge, otherwise an equality
    obligation is emitted."""
    ctx = it.ctx
    declared = set()
    for p in lc.get('havoc', []):
        cell, field = resolve_path(it, p)
        declared.add((id(cell), field))
    # locals re-created from a declared shape at the loop head are loop
    # state described by the invariant
    for name in lc.get('shapes', {}):
        v = ctx.frame.locals.get(name)
        if isinstance(v, VRef):
            declared.add((id(ctx.heap[v.ref]), 'e'))
            declared.add((id(ctx.heap[v.ref]), 'items'))
    shaped_refs = set(getattr(ctx, 'shaped_refs', ()))
    for ref, s in snap.items():
        c = ctx.heap[ref]
        if ref in shaped_refs:
            continue
        if s[0] == 'stream':
            for field, old, new in (('data', s[1], c.data),
                                    ('pos', s[2], c.pos)):
                if (id(c), field) in declared:
                    continue
                if not same_expr(old, new):
                    ctx.oblige('%s.frame.%s' % (label, field), old == new,
                               kind='frame')
        elif s[0] == 'seq':
            if (id(c), 'e') not in declared and not same_expr(s[1], c.e):
                ctx.oblige('%s.frame.seq%d' % (label, ref), s[1] == c.e,
                           kind='frame')
        elif s[0] == 'list':
            if len(s[1]) != len(c.items) or not all(
                    same_expr(x, y) for x, y in zip(s[1], c.items)):
                if (id(c), 'items') not in declared:
                    raise Unsupported('loop mutates a concrete list that the '
                                      'loop contract does not declare')
        elif s[0] == 'dict':
            if (id(c), 'sym') in declared:
                continue
            if s[2] is not None and c.sym is not None and not (
                    s[2][0].eq(c.sym[0]) and s[2][1].eq(c.sym[1])):
                raise Unsupported('loop mutates a symbolic dict that the '
                                  'loop contract does not declare')
            if set(s[1]) != set(c.items) or not all(
                    same_expr(s[1][k], c.items[k]) for k in s[1]):
                if (id(c), 'items') not in declared:
                    raise Unsupported('loop mutates a dict that the loop '
                                      'contract does not declare')
        elif s[0] == 'obj':
            for k, old in s[1].items():
                if (id(c), k) in declared:
                    continue
                if k not in c.attrs or not same_expr(old, c.attrs[k]):
                    raise Unsupported('loop mutates attribute %s that the '
                                      'loop contract does not declare' % k)


def loop_contract(it, node):
    fr = it.ctx.frame
    ordinal = fr.loop_ids.get(id(node))
    lc = it.engine.loop_contract(fr.fi, ordinal)
    return ordinal, lc


def exec_while(it, node):
    ctx = it.ctx
    fr = ctx.frame
    ordinal, lc = loop_contract(it, node)
    if lc is None:
        raise Unsupported('while loop %s of %s has no loop contract' % (
            ordinal, fr.fi.qualname))
    label = 'loop%d' % ordinal
    eng = it.engine
    if lc.get('prepare'):
        lc['prepare'](it)
    # 1. invariant on entry
    for name, clause in lc['invariant']:
        ctx.oblige('%s.init.%s' % (label, name),
                   eng.eval_clause(it, clause, {}), kind='inv-init',
                   where=where_of(fr.fi, node))
    # 2. havoc
    targets = assigned_names(node.body) | assigned_names(node.orelse)
    shapes = lc.get('shapes', {})
    for name in sorted(targets | set(shapes)):
        if name in shapes:
            fr.locals[name] = shapes[name].make(it, name)
            if isinstance(fr.locals[name], VRef):
                ctx.shaped_refs = set(getattr(ctx, 'shaped_refs', ())) | {
                    fr.locals[name].ref}
        elif name in fr.locals:
            fr.locals[name] = fresh_like(ctx, name, fr.locals[name])
    for p in lc.get('havoc', []):
        cell, field = resolve_path(it, p)
        havoc_cell_field(ctx, cell, field)
    if lc.get('at_head'):
        lc['at_head'](it)
    for name, clause in lc['invariant']:
        f = eng.eval_clause(it, clause, {})
        if os.environ.get('PYVC_DEBUG') and z3.is_false(z3.simplify(f)):
            print('invariant clause %s is false at the loop head' % name,
                  file=sys.stderr)
        ctx.assume(f)
    snap = snapshot_heap(ctx)
    variant0 = None
    if lc.get('decreases'):
        variant0 = as_int(eng.eval_value(it, lc['decreases'], {}))
    # 3. one arbitrary iteration, or exit
    if to_bool(ctx, it.ev(node.test)):
        try:
            it.exec_block(node.body)
        except _Break:
            return
        except _Continue:
            pass
        for name, clause in lc['invariant']:
            ctx.oblige('%s.preserve.%s' % (label, name),
                       eng.eval_clause(it, clause, {}), kind='inv-preserve',
                       where=where_of(fr.fi, node))
        if variant0 is not None:
            v1 = as_int(eng.eval_value(it, lc['decreases'], {}))
            ctx.oblige('%s.variant' % label,
                       z3.And(v1 < variant0, variant0 >= 0), kind='variant',
                       where=where_of(fr.fi, node))
        frame_obligations(it, snap, lc, label)
        raise PathEnd()
    else:
        it.exec_block(node.orelse)


def _load_target(t):
    import copy
    t2 = copy.deepcopy(t)
    for nn in ast.walk(t2):
        if hasattr(nn, 'ctx'):
            nn.ctx = ast.Load()
    return t2


def exec_for(it, node):
    ctx = it.ctx
    fr = ctx.frame
    src = it.ev(node.iter)
    start = None
    if isinstance(src, VTuple) and src.items and \
            isinstance(src.items[0], VConc) and \
            src.items[0].py == 'enumerate':
        start = src.items[2]
        src = src.items[1]
    if isinstance(src, VRef) and isinstance(ctx.cell(src), ObjCell):
        # iterable repository object: its own __iter__ (inlined)
        src = it.call(it.getattr(src, '__iter__'), [], {})
    items = models.iter_concrete(it, src)
    if items is not None:
        broke = False
        for k, x in enumerate(items):
            if start is not None:
                x = VTuple([VInt(as_int(start) + k), x])
            it.assign(node.target, x)
            try:
                it.exec_block(node.body)
            except _Break:
                broke = True
                break
            except _Continue:
                continue
        if not broke:
            it.exec_block(node.orelse)
        return
    c = ctx.cell(src) if isinstance(src, VRef) else None
    if not isinstance(c, SeqCell):
        raise Unsupported('for over %r' % (src,))
    ordinal, lc = loop_contract(it, node)
    if lc is None:
        raise Unsupported('for loop %s of %s has no loop contract' % (
            ordinal, fr.fi.qualname))
    label = 'loop%d' % ordinal
    eng = it.engine
    from .values import L_len, L_at
    seq = c.e   # the sequence iterated is evaluated once
    n = L_len(seq)
    if lc.get('prepare'):
        lc['prepare'](it)
    kname = lc.get('index', '_k')
    env0 = {kname: VInt(0)}
    for name, clause in lc['invariant']:
        ctx.oblige('%s.init.%s' % (label, name),
                   eng.eval_clause(it, clause, env0), kind='inv-init',
                   where=where_of(fr.fi, node))
    targets = assigned_names(node.body) | assigned_names(node.orelse) | \
        assigned_names([ast.Expr(node.target)])
    tnames = set()
    for t in ast.walk(node.target):
        if isinstance(t, ast.Name):
            tnames.add(t.id)
    pre_loop_locals = dict(fr.locals)
    shapes = lc.get('shapes', {})
    for name in sorted(targets | tnames | set(shapes)):
        if name in shapes:
            fr.locals[name] = shapes[name].make(it, name)
            if isinstance(fr.locals[name], VRef):
                ctx.shaped_refs = set(getattr(ctx, 'shaped_refs', ())) | {
                    fr.locals[name].ref}
        elif name in fr.locals:
            fr.locals[name] = fresh_like(ctx, name, fr.locals[name])
    for p in lc.get('havoc', []):
        cell, field = resolve_path(it, p)
        havoc_cell_field(ctx, cell, field)
    if lc.get('at_head'):
        lc['at_head'](it)
    k = ctx.fresh_int('k')
    ctx.inst_terms.append(k)
    ctx.assume(z3.And(k >= 0, k <= n))
    envk = {kname: VInt(k)}
    for name, clause in lc['invariant']:
        ctx.assume(eng.eval_clause(it, clause, envk))
    snap = snapshot_heap(ctx)
    if ctx.branch(k < n):
        # name the element (clean terms in the VCs)
        xe = ctx.fresh('elem', L_at(seq, k).sort())
        ctx.assume(xe == L_at(seq, k))
        x = seq_elem(c, xe)
        if start is not None:
            x = VTuple([VInt(as_int(start) + k), x])
        it.assign(node.target, x)
        try:
            it.exec_block(node.body)
        except _Break:
            ctx.ghost['for_break_%d' % ordinal] = k
            return
        except _Continue:
            pass
        # the loop targets must still hold this iteration's element when
        # the loop goes on (they are re-bound from the last element at exit)
        cur_t = it.ev(_load_target(node.target))
        if not same_expr(cur_t, x):
            raise Unsupported('loop target re-assigned on a continuing path')
        envk1 = {kname: VInt(k + 1)}
        for name, clause in lc['invariant']:
            ctx.oblige('%s.preserve.%s' % (label, name),
                       eng.eval_clause(it, clause, envk1),
                       kind='inv-preserve', where=where_of(fr.fi, node))
        frame_obligations(it, snap, lc, label)
        raise PathEnd()
    else:
        # loop finished: for a non-empty sequence the loop variables hold the
        # values of the last iteration; that is part of the invariant the
        # contract must state if the code relies on it.
        if lc.get('at_exit'):
            lc['at_exit'](it, k)
        # after a non-empty loop the targets hold the last element
        if ctx.branch(n > 0):
            xl = seq_elem(c, L_at(seq, n - 1))
            if start is not None:
                xl = VTuple([VInt(as_int(start) + n - 1), xl])
            it.assign(node.target, xl)
        else:
            # the body never ran: the state is the one before the loop
            for name in list(fr.locals):
                if name in targets | tnames:
                    if name in pre_loop_locals:
                        fr.locals[name] = pre_loop_locals[name]
                    else:
                        del fr.locals[name]
        it.exec_block(node.orelse)
