"""Drive the cvc5 1.4 wheel on an SMT-LIB file (no CLI binary is shipped with
the wheel).  Prints `sat`/`unsat`/`unknown` and, for sat, the model lines."""
import sys

import cvc5


def main():
    path, tlimit = sys.argv[1], sys.argv[2]
    slv = cvc5.Solver()
    slv.setOption('strings-exp', 'true')
    slv.setOption('produce-models', 'true')
    slv.setOption('tlimit', tlimit)
    sm = cvc5.SymbolManager(slv)
    parser = cvc5.InputParser(slv, sm)
    parser.setFileInput(cvc5.InputLanguage.SMT_LIB_2_6, path)
    while True:
        cmd = parser.nextCommand()
        if cmd.isNull():
            break
        out = cmd.invoke(slv, sm)
        if out:
            sys.stdout.write(out)
            sys.stdout.flush()


if __name__ == '__main__':
    main()
