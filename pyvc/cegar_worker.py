"""Assumption-selection refinement (child process): start from a small subset
of the assertions, ask z3 for a model, add the assertions the model violates,
repeat.  `unsat` of any subset discharges the obligation (sound); `sat` is
only reported when the model satisfies *all* assertions.

usage: cegar_worker.py <file.smt2> <timeout_s> [seed-count]
The last assertion in the file is the negated goal (always kept)."""
import sys
import time

import z3


def main():
    path = sys.argv[1]
    budget = float(sys.argv[2])
    t0 = time.time()
    asserts = list(z3.parse_smt2_file(path))
    goal = asserts[-1]
    rest = asserts[:-1]
    active = set()
    with open(path) as f:
        first = f.readline()
    if first.startswith('; seeds:'):
        active = set(int(x) for x in first[8:].strip().split(',') if x)
        active = set(i for i in active if i < len(rest))
    rounds = 0
    while time.time() - t0 < budget:
        rounds += 1
        s = z3.Solver()
        s.set('timeout', 3000)
        s.add(goal)
        for i in sorted(active):
            s.add(rest[i])
        r = s.check()
        if r == z3.unsat:
            print('unsat')
            print('; rounds=%d used=%d of %d' % (rounds, len(active),
                                                  len(rest)))
            return
        if r != z3.sat:
            # no model to refine with: grow by the most recent assertions
            # (closest to the goal on the path) and go on
            todo = [i for i in range(len(rest) - 1, -1, -1)
                    if i not in active][:5]
            if not todo:
                print('unknown')
                print('; solver gave up on the full set')
                return
            active.update(todo)
            continue
        m = s.model()
        added = 0
        for i in range(len(rest)):
            if i in active:
                continue
            try:
                v = m.eval(rest[i], model_completion=True)
            except z3.Z3Exception:
                v = None
            if v is None or not z3.is_true(v):
                active.add(i)
                added += 1
                if added >= 6:
                    break
        if added == 0:
            print('sat')
            print(m.sexpr())
            return
    print('unknown')
    print('; budget exhausted after %d rounds' % rounds)


if __name__ == '__main__':
    main()
