"""Models of Python builtins, methods and library calls used by pydiffx
(assumptions A-py, A-bytes, A-int, A-io, A-codec, A-json in DESIGN.md 2).

Every model is either exact for the stated domain or an over-approximation
that only contains true facts about the real operation; models that can raise
fork an exceptional path.
"""
import ast
import codecs
import io
import json
import os
import re

import z3

from .values import (VSymSet, V, VInt, VBool, VNone, VStr, VTuple, VBox, VRef, VConc,
                     VFunc, VExc, VMatch, Val, ListCell, SeqCell, DictCell,
                     ObjCell, StreamCell, Unsupported, box, from_py,
                     SeqString, SeqVal, is_concrete_str, concrete_str,
                     L_len, L_at, list_sort, RecField)
from . import lists
from .symex import (PathEnd, PyRaise, truth, to_bool, eq, as_int, seq_elem,
                    elem_expr, norm_index, slice_str, unbox_choose, elem_sort)
from . import regex as rx

S = z3.StringVal

# --- uninterpreted spec-level functions shared with contracts ----------------
F_Join = lists.F_Join
F_ConcatAll = lists.F_ConcatAll
F_Count = z3.Function('Count', z3.StringSort(), z3.StringSort(), z3.IntSort())
F_Split = z3.Function('Split', z3.StringSort(), z3.StringSort(), SeqString)
# codecs (A-codec): canonical name, encoding without BOM, BOM, decode
F_Canon = z3.Function('Canon', z3.StringSort(), z3.StringSort())
F_CodecKnown = z3.Function('CodecKnown', z3.StringSort(), z3.BoolSort())
# str.encode / bytes.decode additionally need a TEXT encoding ('hex', 'zlib',
# 'rot13', ... are known to codecs.lookup but raise LookupError here)
F_TextCodec = z3.Function('TextCodec', z3.StringSort(), z3.BoolSort())


def text_codec(ctx, enc_e):
    ctx.assume(z3.Implies(F_TextCodec(enc_e), F_CodecKnown(enc_e)))
    return F_TextCodec(enc_e)
F_Enc = z3.Function('Enc', z3.StringSort(), z3.StringSort(), z3.StringSort())
F_EncNB = z3.Function('EncNB', z3.StringSort(), z3.StringSort(),
                      z3.StringSort())
F_Bom = z3.Function('Bom', z3.StringSort(), z3.StringSort())
F_Dec = z3.Function('Dec', z3.StringSort(), z3.StringSort(), z3.StringSort())
F_Encodable = z3.Function('Encodable', z3.StringSort(), z3.StringSort(),
                          z3.BoolSort())
F_Decodable = z3.Function('Decodable', z3.StringSort(), z3.StringSort(),
                          z3.BoolSort())
F_Strip = z3.Function('StripWS', z3.StringSort(), z3.StringSort())
# x.split(sep, 1) == [SplitHead(x, sep), SplitTail(x, sep)] when sep in x
F_SplitHead = z3.Function('SplitHead', z3.StringSort(), z3.StringSort(),
                          z3.StringSort())
F_SplitTail = z3.Function('SplitTail', z3.StringSort(), z3.StringSort(),
                          z3.StringSort())
F_Repr = z3.Function('Repr', Val, z3.StringSort())

WS_CHARS = ' \t\n\r\x0b\x0c'
RE_WS = z3.Union(*[z3.Re(S(c)) for c in WS_CHARS])
RE_ANY = z3.AllChar(z3.ReSort(z3.StringSort()))
RE_NONWS = z3.Intersect(RE_ANY, z3.Complement(RE_WS))
RE_ASCII = z3.Star(z3.Range('\x00', '\x7f'))


def const_key(v):
    if is_concrete_str(v):
        s = concrete_str(v)
        return s.encode('latin-1') if v.b else s
    if isinstance(v, VInt):
        e = z3.simplify(v.e)
        if z3.is_int_value(e):
            return e.as_long()
    raise Unsupported('non-constant dict key %r' % (v,))


def ite(it, c, a, b):
    """Spec-mode conditional value."""
    c = z3.simplify(c)
    if z3.is_true(c):
        return a
    if z3.is_false(c):
        return b
    if isinstance(a, VInt) and isinstance(b, VInt):
        return VInt(z3.If(c, a.e, b.e))
    if isinstance(a, VBool) and isinstance(b, VBool):
        return VBool(z3.If(c, a.e, b.e))
    if isinstance(a, (VInt, VBool)) and isinstance(b, (VInt, VBool)):
        return VInt(z3.If(c, as_int(a), as_int(b)))
    if isinstance(a, VStr) and isinstance(b, VStr) and a.b == b.b:
        return VStr(z3.If(c, a.e, b.e), a.b)
    try:
        return VBox(z3.If(c, box(a), box(b)))
    except Unsupported:
        raise Unsupported('conditional over %r / %r' % (a, b))


# ---------------------------------------------------------------------------
# indexing
# ---------------------------------------------------------------------------
def getitem(it, obj, idx):
    ctx = it.ctx
    if ctx.spec_mode and obj is VNone:
        # specification expressions are total: unspecified value
        return VBox(ctx.fresh('unspec', Val))
    if isinstance(obj, VBox):
        obj = unbox_choose(ctx, obj)
    if isinstance(obj, VTuple):
        i = _const_int(idx)
        if i is None:
            raise Unsupported('symbolic tuple index')
        try:
            return obj.items[i]
        except IndexError:
            it.raise_(IndexError)
    if isinstance(obj, VStr):
        i = as_int(idx)
        n = z3.Length(obj.e)
        ok = z3.And(i >= -n, i < n)
        if not ctx.spec_mode and not ctx.branch(ok):
            it.raise_(IndexError)
        j = z3.If(i < 0, i + n, i)
        if obj.b:
            # bytes[i] is an int; rarely needed
            raise Unsupported('bytes[i] -> int')
        return VStr(z3.SubString(obj.e, j, 1), False)
    if isinstance(obj, VRef):
        c = ctx.cell(obj)
        if isinstance(c, ListCell):
            i = _const_int(idx)
            if i is None:
                if ctx.spec_mode:
                    # total: If-chain over the (boxed) items
                    ie = as_int(idx)
                    acc = ctx.fresh('unspec', Val)
                    for k in range(len(c.items) - 1, -1, -1):
                        acc = z3.If(ie == k, box(c.items[k]), acc)
                    return VBox(acc)
                raise Unsupported('symbolic index into concrete list')
            try:
                return c.items[i]
            except IndexError:
                it.raise_(IndexError)
        if isinstance(c, SeqCell):
            i = as_int(idx)
            n = L_len(c.e)
            if ctx.spec_mode:
                # specifications index mathematically; only a negative
                # literal wraps around
                ic = z3.simplify(i)
                if z3.is_int_value(ic) and ic.as_long() < 0:
                    i = n + ic.as_long()
                return seq_elem(c, L_at(c.e, i))
            ok = z3.And(i >= -n, i < n)
            if not ctx.branch(ok):
                it.raise_(IndexError)
            j = ctx.ite(i < 0, i + n, i)
            return seq_elem(c, L_at(c.e, j))
        if isinstance(c, DictCell):
            return dict_get(it, c, idx, default=None, raise_key=True)
    if isinstance(obj, VConc) and isinstance(obj.py, dict):
        return concrete_dict_get(it, obj.py, idx, None, True)
    if isinstance(obj, VConc) and isinstance(obj.py, (tuple, list)):
        i = _const_int(idx)
        if i is None:
            raise Unsupported('symbolic index into constant sequence')
        try:
            return from_py(obj.py[i])
        except IndexError:
            it.raise_(IndexError)
    if isinstance(obj, VMatch):
        return match_group(it, obj, idx)
    from .values import VRecId
    if isinstance(obj, VRecId):
        return VBox(RecField(obj.e, S(str(const_key(idx)))))
    raise Unsupported('subscript on %r' % (obj,))


def _const_int(v):
    if isinstance(v, VInt):
        e = z3.simplify(v.e)
        if z3.is_int_value(e):
            return e.as_long()
    return None


def getslice(it, obj, lo, hi):
    ctx = it.ctx
    if isinstance(obj, VBox):
        obj = unbox_choose(ctx, obj)
    lo_e = as_int(lo) if lo is not None and lo is not VNone else None
    hi_e = as_int(hi) if hi is not None and hi is not VNone else None
    if isinstance(obj, VStr):
        # word-equation view of  x[:-k]  (k a positive constant, |x| >= k):
        # x = pre . suf with |suf| = k
        if lo_e is None and hi_e is not None and not ctx.spec_mode:
            hk = z3.simplify(hi_e)
            if z3.is_int_value(hk) and hk.as_long() < 0 and \
                    ctx.decide(z3.Length(obj.e) >= -hk.as_long()) is True:
                pre = ctx.fresh_str('pre')
                suf = ctx.fresh_str('suf')
                ctx.assume(obj.e == z3.Concat(pre, suf))
                ctx.assume(z3.Length(suf) == -hk.as_long())
                return VStr(pre, obj.b)
        return VStr(slice_str(obj.e, lo_e, hi_e, ctx), obj.b)
    if isinstance(obj, VRef):
        c = ctx.cell(obj)
        if isinstance(c, SeqCell):
            n = L_len(c.e)
            a = norm_index(lo_e, n, ctx) if lo_e is not None \
                else z3.IntVal(0)
            b = norm_index(hi_e, n, ctx) if hi_e is not None else n
            ln = ctx.ite(b - a < 0, z3.IntVal(0), b - a)
            return ctx.alloc(SeqCell(lists.l_slice(ctx, c.e, a, ln),
                                     c.elem))
        if isinstance(c, ListCell):
            a = _const_int(lo) if lo_e is not None else None
            b = _const_int(hi) if hi_e is not None else None
            if (lo_e is not None and a is None) or \
                    (hi_e is not None and b is None):
                raise Unsupported('symbolic slice of concrete list')
            return ctx.alloc(ListCell(c.items[a:b]))
    if isinstance(obj, VTuple):
        a = _const_int(lo) if lo_e is not None else None
        b = _const_int(hi) if hi_e is not None else None
        return VTuple(obj.items[a:b])
    raise Unsupported('slice of %r' % (obj,))


def setitem(it, obj, idx, v):
    ctx = it.ctx
    if isinstance(obj, VRef):
        c = ctx.cell(obj)
        if isinstance(c, DictCell):
            if c.sym is None and not c.items and not _is_const_key(idx):
                c.sym = empty_sym_dict()
            if c.sym is not None and not _is_const_key(idx):
                arr, dom = c.sym
                k = _key_expr(idx)
                # a symbolic key may shadow a concrete one
                for ck in list(c.items):
                    raise Unsupported('mixed concrete/symbolic dict store')
                c.sym = (z3.Store(arr, k, box(v)),
                         z3.Store(dom, k, z3.BoolVal(True)))
                return
            if c.sym is not None:
                arr, dom = c.sym
                k = _key_expr(idx)
                c.sym = (z3.Store(arr, k, box(v)),
                         z3.Store(dom, k, z3.BoolVal(True)))
                return
            c.items[const_key(idx)] = v
            return
        if isinstance(c, ListCell):
            i = _const_int(idx)
            if i is None:
                raise Unsupported('symbolic index store')
            try:
                c.items[i] = v
            except IndexError:
                it.raise_(IndexError)
            return
        if isinstance(c, SeqCell):
            i = as_int(idx)
            n = L_len(c.e)
            ok = z3.And(i >= -n, i < n)
            if not ctx.branch(ok):
                it.raise_(IndexError)
            j = ctx.ite(i < 0, i + n, i)
            x = elem_expr(c.elem, v)
            c.e = lists.l_set(ctx, c.e, j, x)
            return
    raise Unsupported('item store on %r' % (obj,))


def empty_sym_dict():
    return (z3.K(z3.StringSort(), Val.NoneV),
            z3.K(z3.StringSort(), z3.BoolVal(False)))


def _is_const_key(v):
    try:
        const_key(v)
        return True
    except Unsupported:
        return False


def _key_expr(v):
    if isinstance(v, VStr) and not v.b:
        return v.e
    raise Unsupported('symbolic dict key must be str')


def dict_get(it, c, key, default, raise_key):
    ctx = it.ctx
    if c.sym is None:
        if _is_const_key(key):
            k = const_key(key)
            if k in c.items:
                return c.items[k]
            if raise_key:
                it.raise_(KeyError)
            return default
        # symbolic key into record: fork over keys
        keys = list(c.items)
        conds = []
        for k in keys:
            conds.append(eq(ctx, key, from_py(k)))
        none = z3.Not(z3.Or(conds + [z3.BoolVal(False)]))
        d = ctx.choose(len(keys) + 1, conds + [none])
        if d < len(keys):
            return c.items[keys[d]]
        if raise_key:
            it.raise_(KeyError)
        return default
    arr, dom = c.sym
    if c.items:
        raise Unsupported('mixed dict')
    k = _key_expr(key)
    present = z3.Select(dom, k)
    if ctx.spec_mode:
        dflt = box(default) if default is not None else Val.NoneV
        return VBox(z3.If(present, z3.Select(arr, k), dflt))
    if not raise_key:
        # .get(key, default): merge instead of forking when the default is
        # a scalar (fewer paths, same meaning)
        try:
            dflt = box(default) if default is not None else Val.NoneV
            return VBox(z3.If(present, z3.Select(arr, k), dflt))
        except Unsupported:
            pass
    if ctx.branch(present):
        return VBox(z3.simplify(z3.Select(arr, k)))
    if raise_key:
        it.raise_(KeyError)
    return default


def concrete_dict_get(it, d, key, default, raise_key):
    ctx = it.ctx
    if _is_const_key(key):
        k = const_key(key)
        if k in d:
            return it.engine.wrap_global(it, d[k])
        if raise_key:
            it.raise_(KeyError)
        return default
    key = unbox_choose(ctx, key)
    if key is VNone or not isinstance(key, VStr):
        if None in d and key is VNone:
            return it.engine.wrap_global(it, d[None])
        if raise_key:
            it.raise_(KeyError)
        return default
    keys = [k for k in d if isinstance(k, (bytes if key.b else str))]
    conds = [key.e == S(k.decode('latin-1') if key.b else k) for k in keys]
    none = z3.Not(z3.Or(conds + [z3.BoolVal(False)]))
    dd = ctx.choose(len(keys) + 1, conds + [none])
    if dd < len(keys):
        return it.engine.wrap_global(it, d[keys[dd]])
    if raise_key:
        it.raise_(KeyError)
    return default


# ---------------------------------------------------------------------------
# membership
# ---------------------------------------------------------------------------
def contains(it, container, item):
    ctx = it.ctx
    if isinstance(container, VBox):
        container = unbox_choose(ctx, container)
    if isinstance(container, VStr):
        if isinstance(item, VBox):
            item = unbox_choose(ctx, item)
        if not isinstance(item, VStr) or item.b != container.b:
            it.raise_(TypeError)
        return z3.Contains(container.e, item.e)
    if isinstance(container, VTuple):
        return z3.Or([eq(ctx, item, x) for x in container.items]
                     + [z3.BoolVal(False)])
    if isinstance(container, VConc) and isinstance(
            container.py, (set, frozenset, tuple, list, dict)):
        return z3.Or([eq(ctx, item, from_py(x)) for x in container.py]
                     + [z3.BoolVal(False)])
    if isinstance(container, VRef):
        c = ctx.cell(container)
        if isinstance(c, ListCell):
            return z3.Or([eq(ctx, item, x) for x in c.items]
                         + [z3.BoolVal(False)])
        if isinstance(c, DictCell):
            if c.sym is None:
                if _is_const_key(item):
                    return z3.BoolVal(const_key(item) in c.items)
                return z3.Or([eq(ctx, item, from_py(k)) for k in c.items]
                             + [z3.BoolVal(False)])
            return z3.Select(c.sym[1], _key_expr(item))
        if isinstance(c, SeqCell):
            j = z3.Int('memj')
            return z3.Exists([j], z3.And(
                j >= 0, j < L_len(c.e),
                L_at(c.e, j) == elem_expr(c.elem, item)))
    if isinstance(container, VSymSet):
        if isinstance(item, VBox):
            item = unbox_choose(ctx, item)
        if not isinstance(item, VStr) or item.b:
            return z3.BoolVal(False)
        return z3.Select(container.member, item.e)
    raise Unsupported('membership in %r' % (container,))


# ---------------------------------------------------------------------------
# arithmetic / concatenation / formatting
# ---------------------------------------------------------------------------
def int_to_str(e):
    return z3.If(e < 0, z3.Concat(S('-'), z3.IntToStr(-e)), z3.IntToStr(e))


def binop(it, op, a, b, node):
    ctx = it.ctx
    if isinstance(a, VBox):
        a = unbox_choose(ctx, a)
    if isinstance(b, VBox) and not isinstance(op, ast.Mod):
        b = unbox_choose(ctx, b)
    if isinstance(op, ast.Mod) and isinstance(a, VStr):
        return percent_format(it, a, b)
    if isinstance(a, (VInt, VBool)) and isinstance(b, (VInt, VBool)):
        x, y = as_int(a), as_int(b)
        if isinstance(op, ast.Add):
            return VInt(x + y)
        if isinstance(op, ast.Sub):
            return VInt(x - y)
        if isinstance(op, ast.Mult):
            return VInt(x * y)
        if isinstance(op, ast.FloorDiv):
            if not ctx.spec_mode and not ctx.branch(y != 0):
                it.raise_(ZeroDivisionError)
            # Python floor division (z3 div is Euclidean: floor for y > 0)
            return VInt(z3.If(y > 0, x / y, (-x) / (-y)))
        raise Unsupported('int operator %s' % type(op).__name__)
    if isinstance(op, ast.Add):
        if isinstance(a, VStr) and isinstance(b, VStr):
            if a.b != b.b:
                it.raise_(TypeError)
            return VStr(z3.Concat(a.e, b.e), a.b)
        if isinstance(a, VTuple) and isinstance(b, VTuple):
            return VTuple(a.items + b.items)
        if isinstance(a, VRef) and isinstance(b, VRef):
            ca, cb = ctx.cell(a), ctx.cell(b)
            if isinstance(ca, ListCell) and isinstance(cb, ListCell):
                return ctx.alloc(ListCell(ca.items + cb.items))
            if isinstance(ca, ListCell) and isinstance(cb, SeqCell):
                pre = [elem_expr(cb.elem, x) for x in ca.items]
                return ctx.alloc(SeqCell(
                    lists.l_concat(ctx, pre, cb.e, []), cb.elem))
            if isinstance(ca, SeqCell) and isinstance(cb, ListCell):
                post = [elem_expr(ca.elem, x) for x in cb.items]
                return ctx.alloc(SeqCell(
                    lists.l_concat(ctx, [], ca.e, post), ca.elem))
            if isinstance(ca, SeqCell) and isinstance(cb, SeqCell):
                return ctx.alloc(SeqCell(
                    lists.l_concat2(ctx, ca.e, cb.e), ca.elem))
        if a is VNone or b is VNone or type(a) is not type(b):
            it.raise_(TypeError)
    if isinstance(op, ast.Mult):
        s, n = (a, b) if isinstance(a, VStr) else (b, a)
        if isinstance(s, VStr) and isinstance(n, (VInt, VBool)):
            return str_repeat(it, s, as_int(n))
    if isinstance(op, ast.BitOr):
        if isinstance(a, VConc) and isinstance(b, VConc):
            return VConc(a.py | b.py)
    raise Unsupported('binary %s on %r, %r' % (type(op).__name__, a, b))


F_Repeat = z3.Function('Repeat', z3.StringSort(), z3.IntSort(),
                       z3.StringSort())


def str_repeat(it, s, n):
    """s * n.  Exact for a one-character concrete s via a regex fact; raises
    OverflowError/MemoryError beyond index size (not modelled: n is assumed
    to fit, stated as assumption A-repeat)."""
    ctx = it.ctx
    nc = z3.simplify(n)
    if z3.is_int_value(nc) and is_concrete_str(s):
        return VStr(concrete_str(s) * max(nc.as_long(), 0)
                    if not s.b else
                    (concrete_str(s) * max(nc.as_long(), 0)).encode('latin-1'),
                    s.b)
    r = ctx.fresh_str('rep')
    if is_concrete_str(s) and len(concrete_str(s)) == 1:
        ctx.assume(z3.InRe(r, z3.Star(z3.Re(S(concrete_str(s))))))
        ctx.assume(z3.Length(r) == z3.If(n < 0, 0, n))
        return VStr(r, s.b)
    raise Unsupported('symbolic repetition of %r' % (s,))


_FMT_RE = re.compile(r'%(?:\((\w+)\))?([sdr%])')


def percent_format(it, fmt, arg):
    ctx = it.ctx
    if not is_concrete_str(fmt):
        # message formatting with a symbolic template: abstract
        return VStr(ctx.fresh_str('fmt'), fmt.b)
    f = concrete_str(fmt)
    specs = list(_FMT_RE.finditer(f))
    named = any(m.group(1) for m in specs)
    if isinstance(arg, VBox):
        arg = unbox_choose(ctx, arg)
    if named:
        c = ctx.cell(arg) if isinstance(arg, VRef) else None
        if not isinstance(c, DictCell):
            raise Unsupported('named % format with non-dict')
        getter = lambda m, i: c.items[m.group(1)]
    else:
        items = arg.items if isinstance(arg, VTuple) else [arg]
        nspec = len([m for m in specs if m.group(2) != '%'])
        if len(items) != nspec:
            it.raise_(TypeError)
        getter = lambda m, i: items[i]
    parts = []
    pos = 0
    i = 0
    for m in specs:
        parts.append(S(f[pos:m.start()]))
        pos = m.end()
        kind = m.group(2)
        if kind == '%':
            parts.append(S('%'))
            continue
        v = getter(m, i)
        i += 1
        parts.append(format_one(it, kind, v, fmt.b))
    parts.append(S(f[pos:]))
    res = VStr(z3.simplify(z3.Concat(*parts)) if len(parts) > 1
               else parts[0], fmt.b)
    # remember how the string was built (re.compile of a formatted pattern)
    used = [getter(m, k) for k, m in enumerate(
        [m for m in specs if m.group(2) != '%'])] if not named else []
    ctx.ghost.setdefault('fmt_origin', {})[res.e.get_id()] = (f, used, res.e)
    return res


def format_one(it, kind, v, is_bytes):
    ctx = it.ctx
    if isinstance(v, VBox):
        v = unbox_choose(ctx, v)
    if kind == 'd':
        if isinstance(v, (VInt, VBool)):
            return int_to_str(as_int(v))
        it.raise_(TypeError)
    if kind == 's':
        if isinstance(v, VStr):
            if is_bytes and not v.b:
                it.raise_(TypeError)
            if not is_bytes and v.b:
                return ctx.fresh_str('reprbytes')
            return v.e
        if is_bytes:
            it.raise_(TypeError)
        if isinstance(v, (VInt,)):
            return int_to_str(v.e)
        if isinstance(v, VBool):
            return z3.If(v.e, S('True'), S('False'))
        if v is VNone:
            return S('None')
        return ctx.fresh_str('str')
    if kind == 'r':
        return ctx.fresh_str('repr')
    raise Unsupported('format %%%s' % kind)


# ---------------------------------------------------------------------------
# comprehensions
# ---------------------------------------------------------------------------
def comprehension(it, e, kind):
    ctx = it.ctx
    if len(e.generators) != 1:
        raise Unsupported('nested comprehension')
    g = e.generators[0]
    src = it.ev(g.iter)
    items = iter_concrete(it, src)
    fr = ctx.frame
    saved = dict(fr.locals)
    try:
        if items is not None:
            out = []
            for x in items:
                it.assign(g.target, x)
                keep = True
                for cond in g.ifs:
                    if not to_bool(ctx, it.ev(cond)):
                        keep = False
                        break
                if keep:
                    out.append(it.ev(e.elt))
            return ctx.alloc(ListCell(out))
        c = ctx.cell(src) if isinstance(src, VRef) else None
        if isinstance(c, SeqCell):
            if g.ifs:
                raise Unsupported('filter over symbolic sequence')
            # map over a symbolic sequence: element-wise function
            j = ctx.fresh_int('j')
            it.assign(g.target, seq_elem(c, L_at(c.e, j)))
            ctx.spec_mode += 1
            try:
                body = it.ev(e.elt)
            finally:
                ctx.spec_mode -= 1
            if not isinstance(body, VStr):
                raise Unsupported('map result kind')
            kind_out = 'bytes' if body.b else 'str'
            m = lists.fresh_list(ctx, SeqString, 'map')
            n = L_len(c.e)
            ctx.assume(L_len(m) == n)
            ctx.assume_forall(j, z3.Implies(
                z3.And(j >= 0, j < n), L_at(m, j) == body.e),
                defaults=[z3.IntVal(0), n - 1, n - 2])
            for fct in ctx.ghost.pop('strip_facts', []):
                ctx.assume_forall(j, z3.Implies(
                    z3.And(j >= 0, j < n), fct), defaults=[])
            ctx.ghost.setdefault('maps', []).append((m, c.e, j, body.e))
            return ctx.alloc(SeqCell(m, kind_out))
        raise Unsupported('comprehension over %r' % (src,))
    finally:
        fr.locals = saved


def dict_comprehension(it, e):
    ctx = it.ctx
    g = e.generators[0]
    src = it.ev(g.iter)
    items = iter_concrete(it, src)
    if items is None:
        raise Unsupported('dict comprehension over symbolic iterable')
    fr = ctx.frame
    saved = dict(fr.locals)
    d = DictCell()
    try:
        for x in items:
            it.assign(g.target, x)
            if all(to_bool(ctx, it.ev(c)) for c in g.ifs):
                d.items[const_key(it.ev(e.key))] = it.ev(e.value)
    finally:
        fr.locals = saved
    return ctx.alloc(d)


def iter_concrete(it, v):
    """Concrete list of element values, or None if symbolic length."""
    ctx = it.ctx
    if isinstance(v, VTuple):
        return list(v.items)
    if isinstance(v, VConc) and isinstance(v.py, (set, frozenset)):
        return [from_py(x) for x in sorted(v.py)]
    if isinstance(v, VConc) and isinstance(v.py, (tuple, list)):
        return [from_py(x) for x in v.py]
    if isinstance(v, VConc) and isinstance(v.py, dict):
        return [from_py(x) for x in v.py]
    if isinstance(v, VConc) and isinstance(v.py, range):
        return [VInt(x) for x in v.py]
    if isinstance(v, VRef):
        c = ctx.cell(v)
        if isinstance(c, ListCell):
            return list(c.items)
        if isinstance(c, DictCell) and c.sym is None:
            return [from_py(k) for k in c.items]
        if isinstance(c, ObjCell) and hasattr(c.cls, '__iter__'):
            # iterable repository object: its own __iter__ (inlined)
            return iter_concrete(
                it, it.call(it.getattr(v, '__iter__'), [], {}))
    return None


# ---------------------------------------------------------------------------
# attribute access on concrete python objects (modules / classes)
# ---------------------------------------------------------------------------
def concrete_attr(it, py, name):
    if py is io and name == 'BytesIO':
        return VFunc(lambda it, a, k: new_bytesio(it, a, k), 'io.BytesIO')
    if py is os and name.startswith('SEEK_'):
        return VInt(getattr(os, name))
    if py is json and name == 'loads':
        return VFunc(json_loads, 'json.loads')
    if py is json and name == 'dumps':
        return VFunc(json_dumps, 'json.dumps')
    if py is codecs and name == 'lookup':
        return VFunc(codecs_lookup, 'codecs.lookup')
    if py is re and name == 'compile':
        return VFunc(re_compile, 're.compile')
    if isinstance(py, tuple) and py and py[0] == 'indent-pattern' and \
            name == 'sub':
        return VFunc(lambda it, a, k: indent_pattern_sub(it, py[1], a),
                     'indent_re.sub')
    if isinstance(py, re.Pattern) and name in ('match', 'sub', 'fullmatch'):
        return VFunc(lambda it, a, k: pattern_call(it, py, name, a, k),
                     'Pattern.' + name)
    if isinstance(py, tuple) and py and py[0] == 'super-exc' and \
            name == '__init__':
        target = py[1]

        def exc_init(it, a, k, target=target):
            # BaseException.__init__(self, *args): stores args
            if isinstance(target, VRef):
                it.ctx.cell(target).attrs['args'] = VTuple(list(a))
            else:
                target.attrs['args'] = VTuple(list(a))
            return VNone
        return VFunc(exc_init, 'Exception.__init__')
    if isinstance(py, tuple) and py and py[0] == 'super':
        start, objref = py[1], py[2]
        cls = it.ctx.cell(objref).cls
        mro = list(cls.__mro__)
        for k in mro[mro.index(start) + 1:]:
            if name in k.__dict__ and k is not object:
                qn = '%s.%s.%s' % (k.__module__, k.__qualname__, name)
                return VFunc(lambda it, a, kw, qn=qn: it.engine.call_inline(
                    it, qn, [objref] + a, kw), qn)
        if name == '__init__':
            return VFunc(lambda it, a, kw: VNone, 'object.__init__')
        raise Unsupported('super().%s' % name)
    if it.engine.is_repo_instance(py) and not isinstance(py, tuple):
        # attribute / method of a constant repository object (descriptor)
        for k in type(py).__mro__:
            if name in k.__dict__ and k is not object:
                raw = k.__dict__[name]
                import types as _t
                if isinstance(raw, _t.FunctionType):
                    qn = '%s.%s.%s' % (k.__module__, k.__qualname__, name)
                    return VFunc(lambda it, a, kw, qn=qn:
                                 it.engine.call_inline(
                                     it, qn, [VConc(py)] + a, kw), qn)
                break
    if isinstance(py, tuple) and py and py[0] == 'typeof' and \
            name == '__name__':
        return VStr(it.ctx.fresh_str('typename'), False)
    if isinstance(py, dict) and name in ('get', 'keys', 'items', 'copy'):
        return VFunc(lambda it, a, k: concrete_dict_method(
            it, py, name, a, k), 'dict.' + name)
    return None


def deep_copy_value(it, v, memo):
    """copy.deepcopy on the modelled heap: fresh cells for lists and
    concrete-key dictionaries (sharing inside the value preserved), scalars
    as they are; anything else is outside the subset."""
    ctx = it.ctx
    if isinstance(v, (VInt, VBool, VStr, VBox)) or v is VNone:
        return v
    if isinstance(v, VTuple):
        return VTuple([deep_copy_value(it, x, memo) for x in v.items])
    if isinstance(v, VConc) and isinstance(v.py, dict) and not v.py:
        return ctx.alloc(DictCell({}))
    if isinstance(v, VRef):
        if v.ref in memo:
            return memo[v.ref]
        c = ctx.cell(v)
        if isinstance(c, ListCell):
            n = ctx.alloc(ListCell([]))
            memo[v.ref] = n
            ctx.cell(n).items.extend(
                deep_copy_value(it, x, memo) for x in c.items)
            return n
        if isinstance(c, DictCell) and c.sym is None:
            n = ctx.alloc(DictCell({}))
            memo[v.ref] = n
            for k, x in c.items.items():
                ctx.cell(n).items[k] = deep_copy_value(it, x, memo)
            return n
    raise Unsupported('deepcopy of %r' % (v,))


def concrete_dict_method(it, d, name, args, kwargs):
    if name == 'get':
        default = args[1] if len(args) > 1 else VNone
        return concrete_dict_get(it, d, args[0], default, False)
    if name == 'keys':
        return VConc(tuple(d.keys()))
    if name == 'copy':
        return it.ctx.alloc(DictCell({k: it.engine.wrap_global(it, v)
                                      for k, v in d.items()}))
    if name == 'items':
        return it.ctx.alloc(ListCell([
            VTuple([from_py(k), it.engine.wrap_global(it, v)])
            for k, v in d.items()]))
    raise Unsupported('dict.%s on module constant' % name)


def codecs_lookup(it, args, kwargs):
    """A-codec: lookup succeeds iff the codec is known; .name is the
    canonical name (uninterpreted Canon)."""
    from .values import VAttrs
    ctx = it.ctx
    enc = args[0]
    if isinstance(enc, VBox):
        enc = unbox_choose(ctx, enc)
    if not isinstance(enc, VStr) or enc.b:
        it.raise_(TypeError)
    if is_concrete_str(enc):
        try:
            return VAttrs({'name': VStr(codecs.lookup(
                concrete_str(enc)).name, False)})
        except LookupError:
            it.raise_(LookupError)
    if not ctx.branch(F_CodecKnown(enc.e)):
        it.raise_(LookupError)
    return VAttrs({'name': VStr(F_Canon(enc.e), False)})


def new_bytesio(it, args, kwargs):
    ctx = it.ctx
    if args:
        a = args[0]
        if not isinstance(a, VStr) or not a.b:
            raise Unsupported('BytesIO(non-bytes)')
        return ctx.alloc(StreamCell(a.e, z3.IntVal(0), mode='r'))
    return ctx.alloc(StreamCell(S(''), z3.IntVal(0), mode='w'))


# ---------------------------------------------------------------------------
# calls of concrete callables (builtins and classes)
# ---------------------------------------------------------------------------
def call_concrete(it, py, args, kwargs):
    ctx = it.ctx
    if py is len:
        return builtin_len(it, args[0])
    if py is isinstance:
        return builtin_isinstance(it, args[0], args[1])
    if py is int:
        return builtin_int(it, args, kwargs)
    import logging as _logging
    if isinstance(getattr(py, '__self__', None), _logging.Logger):
        # A-logging: log calls have no effect on the modelled state
        return VNone
    if py is repr:
        v = args[0]
        if isinstance(v, VRef) and isinstance(ctx.cell(v), ObjCell):
            for k in ctx.cell(v).cls.__mro__:
                if '__repr__' in k.__dict__ and k is not object:
                    qn = '%s.%s.__repr__' % (k.__module__, k.__qualname__)
                    return it.engine.call_inline(it, qn, [v], {})
        return VStr(ctx.fresh_str('repr'), False)
    if py is str:
        if not args:
            return VStr('', False)
        v = args[0]
        if isinstance(v, VExc):
            return VStr(ctx.fresh_str('excmsg'), False)
        return VStr(format_one(it, 's', v, False), False)
    if py is sorted:
        return builtin_sorted(it, args, kwargs)
    if py is min or py is max:
        return builtin_minmax(it, py, args, kwargs)
    if py is range:
        vals = [_const_int(a) for a in args]
        if any(v is None for v in vals):
            if len(args) != 1:
                raise Unsupported('symbolic range with start/step')
            # exhaustive case split on a small symbolic count
            n = as_int(args[0])
            K = 4
            conds = [n <= 0] + [n == k for k in range(1, K + 1)] + [n > K]
            d = ctx.choose(len(conds), conds)
            if d == len(conds) - 1:
                raise Unsupported('range(n) with n > %d' % K)
            return VConc(range(d))
        return VConc(range(*vals))
    if py is zip:
        cols = [iter_concrete(it, a) for a in args]
        if any(c is None for c in cols):
            raise Unsupported('zip over a symbolic-length iterable')
        n = min(len(c) for c in cols) if cols else 0
        return ctx.alloc(ListCell([VTuple([c[k] for c in cols])
                                   for k in range(n)]))
    if py is all or py is any:
        items = iter_concrete(it, args[0])
        if items is None:
            raise Unsupported('all/any over a symbolic-length iterable')
        conds = [truth(ctx, x) for x in items]
        if py is all:
            return VBool(z3.And(conds) if conds else z3.BoolVal(True))
        return VBool(z3.Or(conds) if conds else z3.BoolVal(False))
    if py is enumerate:
        start = kwargs.get('start', args[1] if len(args) > 1 else VInt(0))
        return VTuple([VConc('enumerate'), args[0], start])
    if py is dict:
        return builtin_dict(it, args, kwargs)
    if py is type:
        a0 = args[0]
        if isinstance(a0, VRef) and isinstance(ctx.cell(a0), ObjCell):
            return VConc(ctx.cell(a0).cls)
        return VConc(('typeof', a0.tname))
    if py is iter:
        return args[0]
    if py is super:
        # super(Cls, self) - only used to reach Exception.__init__
        if len(args) == 2 and isinstance(args[0], VConc) and \
                isinstance(args[0].py, type) and \
                issubclass(args[0].py, BaseException):
            return VConc(('super-exc', args[1]))
        if len(args) == 2 and isinstance(args[0], VConc) and \
                isinstance(args[0].py, type):
            return VConc(('super', args[0].py, args[1]))
        raise Unsupported('super()')
    if py is getattr:
        name = const_key(args[1])
        return it.getattr(args[0], name)
    if py is setattr:
        name = const_key(args[1])
        it.setattr(args[0], name, args[2])
        return VNone
    if isinstance(py, type) and issubclass(py, BaseException):
        return it.engine.make_exception(it, py, args, kwargs)
    if isinstance(py, type) and (py.__module__ or '').startswith('pydiffx'):
        return it.engine.instantiate(it, py, args, kwargs)
    import copy as _copy
    if py is _copy.deepcopy:
        v = args[0]
        if isinstance(v, VConc) and isinstance(v.py, dict) and not v.py:
            return ctx.alloc(DictCell({}))
        return deep_copy_value(it, v, {})
    if isinstance(py, tuple) and py and py[0] == 'lambda':
        return call_lambda(it, py[1], args)
    raise Unsupported('call of %r' % (py,))


def call_lambda(it, lam, args):
    fr = it.ctx.frame
    saved = dict(fr.locals)
    try:
        for p, a in zip(lam.args.args, args):
            fr.locals[p.arg] = a
        return it.ev(lam.body)
    finally:
        fr.locals = saved


def builtin_len(it, v):
    ctx = it.ctx
    if isinstance(v, VBox):
        v = unbox_choose(ctx, v)
    if isinstance(v, VStr):
        return VInt(z3.Length(v.e))
    if isinstance(v, VTuple):
        return VInt(len(v.items))
    if isinstance(v, VRef):
        c = ctx.cell(v)
        if isinstance(c, ListCell):
            return VInt(len(c.items))
        if isinstance(c, SeqCell):
            return VInt(L_len(c.e))
        if isinstance(c, DictCell) and c.sym is None:
            return VInt(len(c.items))
    if isinstance(v, VConc) and hasattr(v.py, '__len__'):
        return VInt(len(v.py))
    if v is VNone or isinstance(v, (VInt, VBool)):
        it.raise_(TypeError)
    raise Unsupported('len of %r' % (v,))


def builtin_isinstance(it, v, cls):
    ctx = it.ctx
    classes = [c.py for c in cls.items] if isinstance(cls, VTuple) \
        else [cls.py]
    if isinstance(v, VBox):
        # symbolic answer (no fork on the dynamic type)
        e = v.e
        tests = []
        for c in classes:
            if c is int:
                tests += [Val.is_IntV(e), Val.is_BoolV(e)]
            elif c is bool:
                tests.append(Val.is_BoolV(e))
            elif c is str:
                tests.append(Val.is_StrV(e))
            elif c is bytes:
                tests.append(Val.is_BytesV(e))
            elif c is type(None):
                tests.append(Val.is_NoneV(e))
        return VBool(z3.Or(tests + [z3.BoolVal(False)]))
    if isinstance(v, VBox):
        v = unbox_choose(ctx, v)
    if isinstance(v, VJson):
        if dict in classes:
            return VBool(F_JsonIsDict(v.h))
        raise Unsupported('isinstance of a JSON value')

    def one(c):
        if c is bytes:
            return isinstance(v, VStr) and v.b
        if c is str:
            return isinstance(v, VStr) and not v.b
        if c is int:
            return isinstance(v, (VInt, VBool))
        if c is bool:
            return isinstance(v, VBool)
        if c is dict:
            return isinstance(v, VRef) and isinstance(ctx.cell(v), DictCell)
        if c is list:
            return isinstance(v, VRef) and isinstance(
                ctx.cell(v), (ListCell, SeqCell))
        if c is tuple:
            return isinstance(v, VTuple)
        if isinstance(v, VExc):
            return issubclass(v.cls, c)
        if isinstance(v, VRef) and isinstance(ctx.cell(v), ObjCell):
            oc = ctx.cell(v).cls
            return isinstance(oc, type) and issubclass(oc, c)
        return False
    return VBool(any(one(c) for c in classes))


# int(s) for s matching [+-]?\d(_?\d)* (ASCII) modulo surrounding whitespace
RE_DIG = z3.Range('0', '9')
RE_INT_CORE = z3.Concat(z3.Option(z3.Union(z3.Re(S('+')), z3.Re(S('-')))),
                        RE_DIG, z3.Star(z3.Concat(z3.Option(z3.Re(S('_'))),
                                                  RE_DIG)))
RE_INT = z3.Concat(z3.Star(RE_WS), RE_INT_CORE, z3.Star(RE_WS))
RE_PLAIN_NAT = z3.Plus(RE_DIG)
F_IntOfStr = z3.Function('IntOfStr', z3.StringSort(), z3.IntSort())
MAX_STR_DIGITS = 4300


def builtin_int(it, args, kwargs):
    ctx = it.ctx
    if len(args) != 1 or kwargs:
        raise Unsupported('int() with a base / keyword arguments')
    v = args[0]
    if isinstance(v, VBox):
        v = unbox_choose(ctx, v)
    if isinstance(v, (VInt, VBool)):
        return VInt(as_int(v))
    if v is VNone:
        it.raise_(TypeError)
    if isinstance(v, VStr):
        ok = z3.InRe(v.e, RE_INT)
        # CPython refuses very long digit strings (ValueError as well)
        ok2 = z3.And(ok, z3.Length(v.e) <= MAX_STR_DIGITS)
        if is_concrete_str(v) and not v.b:
            # literal: CPython's own answer
            try:
                return VInt(z3.IntVal(int(concrete_str(v))))
            except ValueError:
                it.raise_(ValueError)
        if not ctx.branch(ok2):
            ascii_only = z3.InRe(v.e, z3.Star(z3.Range(chr(0), chr(127))))
            if not v.b and ctx.branch(z3.Not(ascii_only)):
                # str with non-ASCII characters: CPython also accepts
                # Unicode digits and spaces - outcome left open (both)
                if ctx.choose(2) == 0:
                    return VInt(ctx.fresh_int('int_unicode'))
            it.raise_(ValueError)
        r = F_IntOfStr(v.e)
        # exact value for plain digit strings (optionally signed)
        ctx.assume(z3.Implies(z3.InRe(v.e, RE_PLAIN_NAT),
                              r == z3.StrToInt(v.e)))
        ctx.assume(z3.Implies(
            z3.And(z3.PrefixOf(S('-'), v.e),
                   z3.InRe(z3.SubString(v.e, 1, z3.Length(v.e) - 1),
                           RE_PLAIN_NAT)),
            r == -z3.StrToInt(z3.SubString(v.e, 1, z3.Length(v.e) - 1))))
        return VInt(r)
    raise Unsupported('int(%r)' % (v,))


def builtin_sorted(it, args, kwargs):
    ctx = it.ctx
    if isinstance(args[0], VSymSet):
        sq = lists.fresh_list(ctx, SeqString, 'sorted')
        j = ctx.fresh_int('sj')
        ctx.assume_forall(j, z3.Implies(
            z3.And(j >= 0, j < L_len(sq)),
            z3.Select(args[0].member, L_at(sq, j))))
        return ctx.alloc(SeqCell(sq, 'str'))
    if len(args) != 1 or set(kwargs) - {'key'}:
        raise Unsupported('sorted() with arguments other than key=')
    items = iter_concrete(it, args[0])
    if items is None:
        raise Unsupported('sorted of symbolic sequence')
    key = kwargs.get('key')
    keys = []
    for x in items:
        k = call_lambda(it, key.py[1], [x]) if key is not None else x
        try:
            keys.append(const_key(k))
        except Unsupported:
            raise Unsupported('sorted with symbolic keys')
    try:
        order = sorted(range(len(items)), key=lambda i: keys[i])
    except TypeError:
        it.raise_(TypeError)
    return ctx.alloc(ListCell([items[i] for i in order]))


def builtin_minmax(it, fn, args, kwargs):
    ctx = it.ctx
    if kwargs:
        raise Unsupported('min/max with keyword arguments')
    items = iter_concrete(it, args[0]) if len(args) == 1 else list(args)
    if items is None:
        raise Unsupported('min/max of symbolic sequence')
    if not items:
        it.raise_(ValueError)
    acc = as_int(items[0])
    for x in items[1:]:
        y = as_int(x)
        acc = z3.If(y < acc, y, acc) if fn is min else z3.If(y > acc, y, acc)
    return VInt(z3.simplify(acc))


def builtin_dict(it, args, kwargs):
    ctx = it.ctx
    d = DictCell()
    if args:
        src = args[0]
        c = ctx.cell(src) if isinstance(src, VRef) else None
        if not isinstance(c, DictCell):
            raise Unsupported('dict(%r)' % (src,))
        d.items.update(c.items)
        d.sym = c.sym
    if d.sym is not None and kwargs:
        raise Unsupported('dict(sym, **kw)')
    d.items.update(kwargs)
    return ctx.alloc(d)


# ---------------------------------------------------------------------------
# json (A-json): abstract
# ---------------------------------------------------------------------------
F_JsonValid = z3.Function('JsonValid', z3.StringSort(), z3.BoolSort())
F_JsonLoads = z3.Function('JsonLoads', z3.StringSort(), z3.IntSort())
F_JsonDumps = z3.Function('JsonDumps', z3.IntSort(), z3.StringSort())
F_JsonIsDict = z3.Function('JsonIsDict', z3.IntSort(), z3.BoolSort())
F_JsonTooDeep = z3.Function('JsonTooDeep', z3.StringSort(), z3.BoolSort())


class VJson(V):
    """Abstract JSON value (identified by an Int handle)."""
    tname = 'json'

    def __init__(self, h):
        self.h = h


def json_loads(it, args, kwargs):
    ctx = it.ctx
    if len(args) != 1 or kwargs:
        raise Unsupported('json.loads with extra arguments')
    s = args[0]
    if isinstance(s, VBox):
        s = unbox_choose(ctx, s)
    if not isinstance(s, VStr):
        it.raise_(TypeError)
    if s.b:
        # bytes are auto-detected/decoded by json.loads: may raise
        # UnicodeDecodeError (a ValueError) - folded into JsonValid
        pass
    if not ctx.branch(F_JsonValid(s.e)):
        it.raise_(ValueError)
    if not ctx.branch(z3.Not(F_JsonTooDeep(s.e))):
        # CPython's recursive decoder gives up on deeply nested documents
        it.raise_(RecursionError)
    return VJson(F_JsonLoads(s.e))


def json_dumps(it, args, kwargs):
    ctx = it.ctx
    v = args[0]
    r = ctx.fresh_str('json')
    return VStr(r, False)


# ---------------------------------------------------------------------------
# re
# ---------------------------------------------------------------------------
F_StripIndent = z3.Function('StripIndent', z3.StringSort(), z3.IntSort(),
                            z3.StringSort())
RE_MAXREPEAT = 4294967295


def re_compile(it, args, kwargs):
    p = args[0]
    ctx = it.ctx
    flags = 0
    fl = args[1] if len(args) > 1 else kwargs.get('flags')
    if fl is not None:
        try:
            flags = _const_int(fl)
        except Exception:
            flags = None
        if flags is None:
            raise Unsupported('re.compile with symbolic flags')
    origin = ctx.ghost.get('fmt_origin', {}).get(
        p.e.get_id()) if isinstance(p, VStr) else None
    if origin and origin[0] == '^ {1,%d}' and len(origin[1]) == 1 and \
            isinstance(origin[1][0], (VInt, VBool)):
        if flags:
            raise Unsupported('indentation pattern compiled with flags %r'
                              % (flags,))
        # the indentation pattern  ^ {1,N}  with a symbolic N (A-re):
        # re.error when N < 1, OverflowError when N >= MAXREPEAT
        n = as_int(origin[1][0])
        if not ctx.branch(n >= 1):
            it.raise_(re.error)
        if not ctx.branch(n < RE_MAXREPEAT):
            it.raise_(OverflowError)
        return VConc(('indent-pattern', n))
    if is_concrete_str(p):
        s = concrete_str(p)
        try:
            return VConc(re.compile(s.encode('latin-1') if p.b else s,
                                    flags))
        except re.error:
            it.raise_(re.error)
    return VConc(('symbolic-pattern', p))


def pattern_call(it, pat, name, args, kwargs):
    from . import remodel
    return remodel.pattern_call(it, pat, name, args, kwargs)


def indent_pattern_sub(it, n, args):
    """re.compile(b'^ {1,N}').sub(b'', line): up to N leading spaces are
    removed (StripIndent, characterised by its facts)."""
    ctx = it.ctx
    repl, line = args[0], args[1]
    if not (is_concrete_str(repl) and concrete_str(repl) == ''):
        raise Unsupported('indent pattern sub with a replacement')
    if isinstance(line, VBox):
        line = unbox_choose(ctx, line)
    r = F_StripIndent(line.e, n)
    sp = z3.SubString(line.e, 0, z3.Length(line.e) - z3.Length(r))
    facts = z3.And(
        z3.SuffixOf(r, line.e),
        z3.InRe(sp, z3.Star(z3.Re(S(' ')))),
        z3.Length(sp) <= n,
        z3.Or(z3.Length(sp) == n, z3.Not(z3.PrefixOf(S(' '), r))))
    if ctx.spec_mode:
        ctx.ghost.setdefault('strip_facts', []).append(facts)
    else:
        ctx.assume(facts)
    return VStr(r, line.b)


def match_group(it, m, idx):
    key = const_key(idx)
    if key not in m.groups:
        it.raise_(IndexError)
    return m.groups[key]


# ---------------------------------------------------------------------------
# methods
# ---------------------------------------------------------------------------
def call_method(it, recv, name, args, kwargs):
    ctx = it.ctx
    if isinstance(recv, VBox):
        recv = unbox_choose(ctx, recv)
    if isinstance(recv, VStr):
        from . import strmodel
        return strmodel.str_method(it, recv, name, args, kwargs)
    if isinstance(recv, VMatch):
        if name == 'group':
            return match_group(it, recv, args[0])
        raise Unsupported('match.%s' % name)
    if isinstance(recv, VRef):
        c = ctx.cell(recv)
        if isinstance(c, StreamCell):
            return stream_method(it, c, name, args, kwargs)
        if isinstance(c, (ListCell, SeqCell)):
            return list_method(it, recv, c, name, args, kwargs)
        if isinstance(c, DictCell):
            return dict_method(it, recv, c, name, args, kwargs)
    if recv is VNone:
        it.raise_(AttributeError)
    if isinstance(recv, (VInt, VBool)):
        it.raise_(AttributeError)
    raise Unsupported('method %s on %r' % (name, recv))


INDEX_MAX = 2 ** 63 - 1


def stream_method(it, c, name, args, kwargs):
    """A-io: BytesIO-like seekable binary stream."""
    ctx = it.ctx
    if name == 'read':
        n = args[0] if args else VNone
        if isinstance(n, VBox):
            n = unbox_choose(ctx, n)
        if n is VNone:
            ne = z3.IntVal(-1)
        elif isinstance(n, (VInt, VBool)):
            ne = as_int(n)
        else:
            it.raise_(TypeError)
        if not ctx.spec_mode:
            if not ctx.branch(z3.And(ne <= INDEX_MAX, ne >= -INDEX_MAX - 1)):
                it.raise_(OverflowError)
        ln = z3.Length(c.data)
        avail = ln - c.pos
        avail = z3.If(avail < 0, z3.IntVal(0), avail)
        take = z3.If(z3.Or(ne < 0, ne > avail), avail, ne)
        out = z3.simplify(z3.SubString(c.data, c.pos, take))
        c.pos = z3.simplify(c.pos + take)
        return VStr(out, True)
    if name == 'seek':
        off = as_int(args[0])
        whence = _const_int(args[1]) if len(args) > 1 else 0
        if whence == 0:
            new = off
        elif whence == 1:
            new = c.pos + off
        elif whence == 2:
            new = z3.Length(c.data) + off
        else:
            raise Unsupported('seek whence')
        if not ctx.branch(new >= 0):
            it.raise_(ValueError)
        c.pos = z3.simplify(new)
        return VInt(c.pos)
    if name == 'tell':
        return VInt(c.pos)
    if name == 'write':
        b = args[0]
        if isinstance(b, VBox):
            b = unbox_choose(ctx, b)
        if not isinstance(b, VStr) or not b.b:
            it.raise_(TypeError)
        # append-only use (position at end): stated in A-io
        c.data = z3.simplify(z3.Concat(c.data, b.e))
        c.pos = z3.simplify(z3.Length(c.data))
        ctx.ghost.setdefault('writes', []).append(b.e)
        return VInt(z3.Length(b.e))
    if name == 'getvalue':
        return VStr(c.data, True)
    if name == 'close':
        c.closed = z3.BoolVal(True)
        return VNone
    raise Unsupported('stream.%s' % name)


def flatten_record(ctx, v, prefix=''):
    cell = ctx.cell(v) if isinstance(v, VRef) else None
    if not isinstance(cell, DictCell) or cell.sym is not None:
        raise Unsupported('record list element must be a dict with '
                          'constant keys')
    out = []
    for k, x in cell.items.items():
        if isinstance(x, VRef):
            out.extend(flatten_record(ctx, x, prefix + str(k) + '.'))
        else:
            out.append((prefix + str(k), x))
    return out


def list_method(it, ref, c, name, args, kwargs):
    ctx = it.ctx
    if name == 'append':
        if isinstance(c, ListCell):
            c.items.append(args[0])
        elif c.elem == 'rec':
            rid = ctx.fresh_int('rec')
            for fname, fval in flatten_record(ctx, args[0]):
                ctx.assume(RecField(rid, S(fname)) == box(fval))
            c.e = lists.l_append(ctx, c.e, rid)
            ctx.ghost.setdefault('appended_records', []).append(
                (rid, args[0]))
        else:
            c.e = lists.l_append(ctx, c.e, elem_expr(c.elem, args[0]))
        return VNone
    if name == 'pop':
        if args:
            raise Unsupported('pop(i)')
        if isinstance(c, ListCell):
            if not c.items:
                it.raise_(IndexError)
            return c.items.pop()
        n = L_len(c.e)
        if not ctx.branch(n > 0):
            it.raise_(IndexError)
        new, last = lists.l_pop(ctx, c.e)
        c.e = new
        return seq_elem(c, last)
    raise Unsupported('list.%s' % name)


def dict_method(it, ref, c, name, args, kwargs):
    ctx = it.ctx
    if name == 'get':
        default = args[1] if len(args) > 1 else VNone
        return dict_get(it, c, args[0], default, False)
    if name == 'items':
        if c.sym is not None:
            raise Unsupported('items() of symbolic dict')
        return ctx.alloc(ListCell([VTuple([from_py(k), v])
                                   for k, v in c.items.items()]))
    if name == 'keys':
        if c.sym is not None:
            raise Unsupported('keys() of symbolic dict')
        return ctx.alloc(ListCell([from_py(k) for k in c.items]))
    if name == 'copy':
        return ctx.alloc(DictCell(c.items, c.sym))
    if name == 'update':
        src = args[0] if args else None
        if src is not None:
            sc = ctx.cell(src)
            if not isinstance(sc, DictCell) or sc.sym is not None or \
                    c.sym is not None:
                raise Unsupported('update with symbolic dict')
            c.items.update(sc.items)
        c.items.update(kwargs)
        return VNone
    if name == 'pop':
        if c.sym is None and _is_const_key(args[0]):
            k = const_key(args[0])
            if k in c.items:
                return c.items.pop(k)
            if len(args) > 1:
                return args[1]
            it.raise_(KeyError)
        raise Unsupported('dict.pop symbolic')
    if name == 'clear':
        c.items.clear()
        if c.sym is not None:
            raise Unsupported('clear symbolic dict')
        return VNone
    raise Unsupported('dict.%s' % name)
