"""SMT portfolio: every query is printed as SMT-LIB text from a *fresh* z3
solver object, written to a file and handed to z3 5.1 (CLI `z3-new`), cvc5
1.0.3 (CLI) and cvc5 1.4 (wheel, through a helper script) as child processes
under a hard wall-clock limit.  First decisive answer wins; `sat` vs `unsat`
disagreement is a CHECKER-ERROR for that obligation.

Nothing in here ever maps `unknown`/timeout to a violation.
"""
import hashlib
import json
import os
import re
import subprocess
import sys
import tempfile
import time
from concurrent.futures import ThreadPoolExecutor

import z3

HERE = os.path.dirname(os.path.abspath(__file__))
CVC5_CLI = '/usr/bin/cvc5'
Z3_CLI = 'z3-new'
PY_VT = sys.executable

UNSAT, SAT, UNKNOWN, ERROR = 'unsat', 'sat', 'unknown', 'error'


def to_smt2(assertions):
    """Print assertions (list of z3 BoolRef) as SMT-LIB from a fresh solver."""
    s = z3.Solver()
    for a in assertions:
        s.add(a)
    txt = s.to_smt2()
    # z3's simplifier splits seq.nth into internal in-range / out-of-range
    # symbols that no parser accepts; both are instances of seq.nth
    txt = txt.replace('seq.nth_i', 'seq.nth').replace('seq.nth_u', 'seq.nth')
    return '(set-logic ALL)\n' + txt


class Result(object):
    def __init__(self, status, solver, time_s, model=None, raw=''):
        self.status = status
        self.solver = solver
        self.time_s = time_s
        self.model = model or {}
        self.raw = raw

    def __repr__(self):
        return '<%s by %s in %.2fs>' % (self.status, self.solver, self.time_s)


def _spawn(cmd):
    return subprocess.Popen(cmd, stdout=subprocess.PIPE,
                            stderr=subprocess.PIPE, text=True)


_MODEL_RE = re.compile(
    r'\(define-fun\s+(\S+)\s+\(\)\s+(\S+)\s+((?:"(?:[^"]|"")*")|[^()\s]+|\(- \d+\))\)')


def _unescape_smt_string(s):
    s = s[1:-1].replace('""', '"')

    def rep(m):
        return chr(int(m.group(1) or m.group(2), 16))
    s = re.sub(r'\\u\{([0-9a-fA-F]+)\}|\\u([0-9a-fA-F]{4})', rep, s)
    return s


def parse_model(txt):
    """Best-effort parse of scalar constants from a (get-model) answer."""
    model = {}
    for m in _MODEL_RE.finditer(txt):
        name, sort, val = m.group(1), m.group(2), m.group(3)
        name = name.strip('|')
        if sort == 'Int':
            mm = re.match(r'\(- (\d+)\)', val)
            model[name] = -int(mm.group(1)) if mm else int(val)
        elif sort == 'Bool':
            model[name] = (val == 'true')
        elif sort == 'String':
            model[name] = _unescape_smt_string(val)
    return model


def solve_text(text, timeout_s=10, want_model=True, solvers=('z3', 'cvc5'),
               workdir=None, tag='q'):
    """Run the portfolio on one SMT-LIB text.  Returns Result."""
    body = text
    if want_model:
        body = text.replace('(check-sat)', '(check-sat)\n(get-model)')
    fd, path = tempfile.mkstemp(suffix='.smt2', prefix=tag + '_',
                                dir=workdir)
    with os.fdopen(fd, 'w') as f:
        f.write(body)
    procs = {}
    t0 = time.time()
    try:
        if 'z3' in solvers:
            procs['z3-5.1'] = _spawn([Z3_CLI, '-T:%d' % int(timeout_s + 1),
                                      '-t:%d' % int(timeout_s * 1000),
                                      path])
        if 'cvc5' in solvers:
            procs['cvc5-1.0.3'] = _spawn(
                [CVC5_CLI, '--strings-exp', '--produce-models',
                 '--tlimit=%d' % int(timeout_s * 1000), path])
        if 'cvc5fmf' in solvers:
            procs['cvc5-1.0.3-fmf'] = _spawn(
                [CVC5_CLI, '--strings-exp', '--strings-fmf',
                 '--produce-models',
                 '--tlimit=%d' % int(timeout_s * 1000), path])
        if 'cegar' in solvers:
            procs['z3-5.1-cegar'] = _spawn(
                [PY_VT, os.path.join(HERE, 'cegar_worker.py'), path,
                 str(int(timeout_s))])
        if 'cvc5new' in solvers:
            procs['cvc5-1.4'] = _spawn(
                [PY_VT, os.path.join(HERE, 'cvc5_run.py'), path,
                 str(int(timeout_s * 1000))])
        answers = {}
        deadline = t0 + timeout_s + 3
        pending = dict(procs)
        while pending and time.time() < deadline:
            for name, p in list(pending.items()):
                rc = p.poll()
                if rc is None:
                    continue
                out = p.stdout.read()
                del pending[name]
                first = out.strip().split('\n', 1)[0].strip() if out.strip() \
                    else ''
                if first in (UNSAT, SAT):
                    answers[name] = (first, out, time.time() - t0)
                else:
                    answers[name] = (UNKNOWN, out + p.stderr.read(),
                                     time.time() - t0)
            decisive = [(n, a) for n, a in answers.items()
                        if a[0] in (UNSAT, SAT)]
            if decisive:
                # give the other solver no more time; but if it already
                # answered, check for disagreement
                kinds = set(a[0] for _, a in decisive)
                if len(kinds) > 1:
                    return Result(ERROR, 'portfolio', time.time() - t0,
                                  raw='solver disagreement: %r' % (
                                      {n: a[0] for n, a in decisive},))
                n, a = decisive[0]
                model = parse_model(a[1]) if a[0] == SAT else None
                return Result(a[0], n, a[2], model, a[1][:4000])
            time.sleep(0.005)
        raw = '\n'.join('%s: %s' % (n, a[1][:500])
                        for n, a in answers.items())
        return Result(UNKNOWN, 'portfolio', time.time() - t0, raw=raw)
    finally:
        for p in procs.values():
            if p.poll() is None:
                try:
                    p.kill()
                except Exception:
                    pass
            try:
                p.stdout.close()
                p.stderr.close()
            except Exception:
                pass
            try:
                p.wait(timeout=1)
            except Exception:
                pass
        try:
            os.unlink(path)
        except OSError:
            pass


def quick_check(assertions, timeout_ms=300):
    """In-process z3 check used only for *path feasibility pruning* while
    executing symbolically.  `unsat` prunes a path (sound); anything else
    keeps it."""
    s = z3.Solver()
    s.set('timeout', timeout_ms)
    for a in assertions:
        s.add(a)
    r = s.check()
    if r == z3.unsat:
        return UNSAT
    if r == z3.sat:
        return SAT
    return UNKNOWN


def solve_many(items, timeout_s=10, jobs=8, **kw):
    """items: list of (key, text).  Returns dict key -> Result."""
    out = {}

    def one(it):
        key, text = it
        return key, solve_text(text, timeout_s=timeout_s, **kw)
    with ThreadPoolExecutor(max_workers=jobs) as ex:
        for key, res in ex.map(one, items):
            out[key] = res
    return out


def sha(text):
    return hashlib.sha256(text.encode('utf-8')).hexdigest()[:16]
