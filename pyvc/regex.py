"""Translation of the `re` patterns that occur in the repository into SMT
regular expressions (assumption A-re).  The parse tree comes from CPython's
own `re._parser`; only the opcodes handled below are accepted, anything else
raises Unsupported.

Two services:
  * lang(pattern)            -> z3 regex of the *matched text* (look-arounds
                                dropped only where the caller says so)
  * decompose(pattern, ctx)  -> existential decomposition of a match into
                                named groups for concatenation-shaped patterns
"""
import re
import re._parser as sre_parse
import re._constants as sre_c

import z3

from .values import Unsupported

RE = z3.ReSort(z3.StringSort())


def _ch(c):
    return z3.Re(z3.StringVal(chr(c)))


def _anychar():
    return z3.AllChar(RE)


def _cls_category(cat, is_bytes):
    if cat == sre_c.CATEGORY_DIGIT:
        return z3.Range('0', '9')
    if cat == sre_c.CATEGORY_SPACE:
        return z3.Union(*[_ch(ord(c)) for c in ' \t\n\r\f\v'])
    if cat == sre_c.CATEGORY_WORD:
        return z3.Union(z3.Range('a', 'z'), z3.Range('A', 'Z'),
                        z3.Range('0', '9'), _ch(ord('_')))
    if cat == sre_c.CATEGORY_NOT_DIGIT:
        return z3.Intersect(_anychar(), z3.Complement(z3.Range('0', '9')))
    if cat == sre_c.CATEGORY_NOT_SPACE:
        return z3.Intersect(_anychar(), z3.Complement(
            _cls_category(sre_c.CATEGORY_SPACE, is_bytes)))
    if cat == sre_c.CATEGORY_NOT_WORD:
        return z3.Intersect(_anychar(), z3.Complement(
            _cls_category(sre_c.CATEGORY_WORD, is_bytes)))
    raise Unsupported('regex category %r' % (cat,))


def _union(parts):
    parts = list(parts)
    if not parts:
        return z3.Empty(RE)
    if len(parts) == 1:
        return parts[0]
    return z3.Union(*parts)


def _concat(parts):
    parts = list(parts)
    if not parts:
        return z3.Re(z3.StringVal(''))
    if len(parts) == 1:
        return parts[0]
    return z3.Concat(*parts)


class Translator(object):
    def __init__(self, pattern, flags=0):
        if isinstance(pattern, re.Pattern):
            flags = pattern.flags
            pattern = pattern.pattern
        self.is_bytes = isinstance(pattern, bytes)
        self.pattern = pattern
        self.flags = flags
        self.tree = sre_parse.parse(pattern, flags)
        self.flags = self.tree.state.flags | flags
        unhandled = self.flags & (re.IGNORECASE | re.VERBOSE | re.LOCALE)
        if unhandled:
            raise Unsupported('regular expression flags %r are outside the '
                              'translated fragment' % (re.RegexFlag(
                                  unhandled),))
        self.groupindex = dict(self.tree.state.groupdict)
        self.ngroups = self.tree.state.groups - 1
        self.dropped = []   # look-arounds / anchors dropped (over-approx)

    # -- language of a sub-tree (anchors inside are rejected) --
    def lang_items(self, items, drop_assert=False, allow_edge_anchor=False):
        out = []
        n = len(items)
        for idx, (op, av) in enumerate(items):
            if op == sre_c.AT:
                if allow_edge_anchor and (
                        (idx == 0 and av in (sre_c.AT_BEGINNING,
                                             sre_c.AT_BEGINNING_STRING)) or
                        (idx == n - 1 and av in (sre_c.AT_END,
                                                 sre_c.AT_END_STRING))):
                    continue
                if drop_assert:
                    self.dropped.append(('AT', str(av)))
                    continue
                raise Unsupported('anchor %s inside pattern' % (av,))
            out.append(self.lang_one(op, av, drop_assert))
        return _concat(out)

    def lang_one(self, op, av, drop_assert=False):
        if op == sre_c.LITERAL:
            return _ch(av)
        if op == sre_c.NOT_LITERAL:
            return z3.Intersect(_anychar(), z3.Complement(_ch(av)))
        if op == sre_c.ANY:
            if self.flags & re.DOTALL:
                return _anychar()
            return z3.Intersect(_anychar(), z3.Complement(_ch(10)))
        if op == sre_c.IN:
            neg = False
            parts = []
            for iop, iav in av:
                if iop == sre_c.NEGATE:
                    neg = True
                elif iop == sre_c.LITERAL:
                    parts.append(_ch(iav))
                elif iop == sre_c.RANGE:
                    parts.append(z3.Range(chr(iav[0]), chr(iav[1])))
                elif iop == sre_c.CATEGORY:
                    parts.append(_cls_category(iav, self.is_bytes))
                else:
                    raise Unsupported('regex class item %s' % (iop,))
            u = _union(parts)
            if neg:
                return z3.Intersect(_anychar(), z3.Complement(u))
            return u
        if op == sre_c.BRANCH:
            return _union(self.lang_items(alt, drop_assert)
                          for alt in av[1])
        if op == sre_c.SUBPATTERN:
            group, add_flags, del_flags, p = av
            if add_flags or del_flags:
                raise Unsupported('inline regex flags')
            return self.lang_items(p, drop_assert)
        if op in (sre_c.MAX_REPEAT, sre_c.MIN_REPEAT):
            lo, hi, p = av
            inner = self.lang_items(p, drop_assert)
            if hi == sre_c.MAXREPEAT:
                if lo == 0:
                    return z3.Star(inner)
                if lo == 1:
                    return z3.Plus(inner)
                return z3.Concat(z3.Loop(inner, lo, lo), z3.Star(inner))
            return z3.Loop(inner, lo, hi)
        if op in (sre_c.ASSERT, sre_c.ASSERT_NOT):
            if drop_assert:
                self.dropped.append(('ASSERT', str(av[0])))
                return z3.Re(z3.StringVal(''))
            raise Unsupported('look-around in pattern')
        raise Unsupported('regex opcode %s' % (op,))

    def top_items(self):
        return list(self.tree)

    def body_lang(self, drop_assert=False):
        """Language of the text consumed by a match anchored at both ends
        (leading ^ and trailing $ are accepted and interpreted by caller)."""
        return self.lang_items(self.top_items(), drop_assert,
                               allow_edge_anchor=True)

    def anchors(self):
        items = self.top_items()
        begin = bool(items) and items[0][0] == sre_c.AT and \
            items[0][1] in (sre_c.AT_BEGINNING, sre_c.AT_BEGINNING_STRING)
        end = None
        if items and items[-1][0] == sre_c.AT:
            if items[-1][1] == sre_c.AT_END:
                end = 'dollar'
            elif items[-1][1] == sre_c.AT_END_STRING:
                end = 'Z'
        return begin, end

    def match_lang(self, mode):
        """Language of *inputs* for which pattern.<mode>(input) succeeds.
        mode: 'match' (anchored at start, prefix) or 'fullmatch'."""
        begin, end = self.anchors()
        body = self.body_lang()
        nl = _ch(10)
        anything = z3.Star(_anychar())
        if mode == 'fullmatch':
            return body
        if mode != 'match':
            raise Unsupported('regex mode %s' % mode)
        if end is None:
            return z3.Concat(body, anything)
        if end == 'Z':
            return body
        # '$'
        if self.flags & re.MULTILINE:
            return z3.Concat(body, z3.Union(z3.Re(z3.StringVal('')),
                                            z3.Concat(nl, anything)))
        return z3.Concat(body, z3.Option(nl))


def lang_of(pattern, mode='match'):
    return Translator(pattern).match_lang(mode)


# --- differential test support -------------------------------------------
def z3_accepts(regex, s):
    """Decide membership of a concrete string with z3 (simplifier first)."""
    e = z3.simplify(z3.InRe(z3.StringVal(s), regex))
    if z3.is_true(e):
        return True
    if z3.is_false(e):
        return False
    sol = z3.Solver()
    sol.set('timeout', 5000)
    sol.add(e)
    r = sol.check()
    if r == z3.sat:
        return True
    if r == z3.unsat:
        return False
    raise RuntimeError('z3 could not decide membership')
