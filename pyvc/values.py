"""Symbolic value domain of the pyvc executor."""
import z3

# --- universal boxed scalar -------------------------------------------------
_Val = z3.Datatype('Val')
_Val.declare('NoneV')
_Val.declare('IntV', ('ival', z3.IntSort()))
_Val.declare('StrV', ('sval', z3.StringSort()))
_Val.declare('BytesV', ('bval', z3.StringSort()))
_Val.declare('BoolV', ('tval', z3.BoolSort()))
Val = _Val.create()

StringSort = z3.StringSort()
IntSort = z3.IntSort()
BoolSort = z3.BoolSort()
# Python lists of symbolic length are terms of an *uninterpreted* list sort
# with length / element functions (EUF + strings is far easier for the
# solvers than sequences of strings).  Every list operation introduces a
# fresh list constant related to the old one by (schematic) axioms.
SeqString = z3.DeclareSort('StrList')
SeqVal = z3.DeclareSort('ValList')
SeqInt = z3.DeclareSort('IntList')
_LEN = {s.name(): z3.Function('Len_' + s.name(), s, IntSort)
        for s in (SeqString, SeqVal, SeqInt)}
_AT = {SeqString.name(): z3.Function('At_StrList', SeqString, IntSort,
                                     StringSort),
       SeqVal.name(): z3.Function('At_ValList', SeqVal, IntSort, Val),
       SeqInt.name(): z3.Function('At_IntList', SeqInt, IntSort, IntSort)}


def L_len(e):
    return _LEN[e.sort().name()](e)


def L_at(e, i):
    if isinstance(i, int):
        i = z3.IntVal(i)
    return _AT[e.sort().name()](e, i)


def list_sort(kind):
    return {'bytes': SeqString, 'str': SeqString, 'box': SeqVal,
            'int': SeqInt, 'rec': SeqInt}[kind]


# lists of records (dicts with constant keys): the list holds record ids,
# the fields live in an uninterpreted function of (id, flattened field name)
RecField = z3.Function('RecField', IntSort, StringSort, Val)


class Unsupported(Exception):
    """Construct outside the pyvc subset -> function verdict UNDECIDED."""


class V(object):
    tname = 'value'


class VInt(V):
    tname = 'int'

    def __init__(self, e):
        if isinstance(e, int):
            e = z3.IntVal(e)
        self.e = e

    def __repr__(self):
        return 'VInt(%s)' % self.e


class VBool(V):
    tname = 'bool'

    def __init__(self, e):
        if isinstance(e, bool):
            e = z3.BoolVal(e)
        self.e = e

    def __repr__(self):
        return 'VBool(%s)' % self.e


class VNoneT(V):
    tname = 'NoneType'

    def __repr__(self):
        return 'VNone'


VNone = VNoneT()


class VStr(V):
    """bytes (b=True) or str (b=False); both are SMT strings."""

    def __init__(self, e, b):
        if isinstance(e, (bytes, bytearray)):
            e = z3.StringVal(e.decode('latin-1'))
            assert b
        elif isinstance(e, str):
            e = z3.StringVal(e)
        self.e = e
        self.b = b

    @property
    def tname(self):
        return 'bytes' if self.b else 'str'

    def __repr__(self):
        return 'V%s(%s)' % ('Bytes' if self.b else 'Str', self.e)


class VTuple(V):
    tname = 'tuple'

    def __init__(self, items):
        self.items = list(items)

    def __repr__(self):
        return 'VTuple(%r)' % (self.items,)


class VBox(V):
    """Dynamically typed scalar (None | int | str | bytes | bool)."""
    tname = 'box'

    def __init__(self, e):
        self.e = e

    def __repr__(self):
        return 'VBox(%s)' % self.e


class VRef(V):
    """Reference to a heap cell."""
    tname = 'ref'

    def __init__(self, ref):
        self.ref = ref

    def __repr__(self):
        return 'VRef(%s)' % self.ref


class VConc(V):
    """Concrete immutable Python object taken from the real module (sets,
    dicts of constants, compiled patterns, classes, modules)."""
    tname = 'concrete'

    def __init__(self, py):
        self.py = py

    def __repr__(self):
        return 'VConc(%r)' % (self.py,)


class VSymSet(V):
    """Set of str with symbolic membership (Array String -> Bool)."""
    tname = 'set'

    def __init__(self, member):
        self.member = member


class VFunc(V):
    tname = 'function'

    def __init__(self, fn, name='<fn>'):
        self.fn = fn
        self.name = name

    def __repr__(self):
        return 'VFunc(%s)' % self.name


class VExc(V):
    """Exception instance."""
    tname = 'exception'

    def __init__(self, cls, args=(), attrs=None):
        self.cls = cls
        self.args = list(args)
        self.attrs = attrs or {}

    def __repr__(self):
        return 'VExc(%s)' % self.cls.__name__


class VRecId(V):
    """Element of a list of records: fields via RecField(id, name)."""
    tname = 'dict'

    def __init__(self, e):
        self.e = e


class VAttrs(V):
    """Plain immutable object with attributes (e.g. codecs.CodecInfo)."""
    tname = 'object'

    def __init__(self, attrs):
        self.attrs = dict(attrs)


class VMatch(V):
    """Result of re match: groups by name/index -> VStr or VNone."""
    tname = 'match'

    def __init__(self, groups, whole):
        self.groups = groups
        self.whole = whole


# --- heap cells ---------------------------------------------------------------
class Cell(object):
    pass


class ListCell(Cell):
    """Python list with a concrete number of elements."""

    def __init__(self, items):
        self.items = list(items)


class SeqCell(Cell):
    """Python list of symbolic length; elem in {'bytes','str','box','int'}"""

    def __init__(self, e, elem):
        self.e = e
        self.elem = elem


class DictCell(Cell):
    """dict with concrete keys (record) and optionally a symbolic part:
    sym = (arr: Array String->Val, dom: Array String->Bool)."""

    def __init__(self, items=None, sym=None):
        self.items = dict(items or {})
        self.sym = sym


class ObjCell(Cell):
    def __init__(self, cls, attrs=None):
        self.cls = cls
        self.attrs = dict(attrs or {})


class StreamCell(Cell):
    """io stream model (A-io): data, pos, closed.  Reads never change data;
    writes append at the end (writer side: pos is always len(data))."""

    def __init__(self, data, pos, closed=None, mode='r'):
        self.data = data
        self.pos = pos
        self.closed = closed if closed is not None else z3.BoolVal(False)
        self.mode = mode


def box(v):
    """V -> z3 Val term."""
    if isinstance(v, VBox):
        return v.e
    if v is VNone:
        return Val.NoneV
    if isinstance(v, VBool):
        return Val.BoolV(v.e)
    if isinstance(v, VInt):
        return Val.IntV(v.e)
    if isinstance(v, VStr):
        return Val.BytesV(v.e) if v.b else Val.StrV(v.e)
    raise Unsupported('cannot box %r' % (v,))


def from_py(x):
    """Concrete Python constant -> V."""
    if x is None:
        return VNone
    if isinstance(x, bool):
        return VBool(x)
    if isinstance(x, int):
        return VInt(int(x))       # (IntFlag / IntEnum members too)
    if isinstance(x, bytes):
        return VStr(x, True)
    if isinstance(x, str):
        return VStr(x, False)
    if isinstance(x, tuple):
        return VTuple([from_py(i) for i in x])
    return VConc(x)


def is_concrete_str(v):
    return isinstance(v, VStr) and z3.is_string_value(z3.simplify(v.e))


def concrete_str(v):
    e = z3.simplify(v.e)
    s = e.as_string()
    # z3 escapes non-printables as \u{..}
    import re as _re

    def rep(m):
        return chr(int(m.group(1), 16))
    return _re.sub(r'\\u\{([0-9a-fA-F]+)\}', rep, s)
