"""Engine: contracts registry, name resolution against the real modules,
function verification driver (path enumeration + VC collection + discharge).
"""
import ast
import builtins as pybuiltins
import re
import time
import types

import z3

from . import smt, extract, models
from .values import (V, VInt, VBool, VNone, VStr, VTuple, VBox, VRef, VConc,
                     VFunc, VExc, Val, ListCell, SeqCell, DictCell, ObjCell,
                     StreamCell, Unsupported, box, from_py, SeqString, SeqVal)
from .symex import (Ctx, Frame, PathEnd, _Return, PyRaise, Obligation, truth,
                    as_int, where_of)
from .interp import Interp, assigned_names, BoundMethod


# ---------------------------------------------------------------------------
# parameter / value specs used by contracts
# ---------------------------------------------------------------------------
class Spec(object):
    def make(self, it, name):
        raise NotImplementedError


class Int(Spec):
    def make(self, it, name):
        return VInt(it.ctx.fresh_int(name))


class Bool(Spec):
    def make(self, it, name):
        return VBool(it.ctx.fresh_bool(name))


class Bytes(Spec):
    def make(self, it, name):
        return VStr(it.ctx.fresh_str(name), True)


class Str(Spec):
    def make(self, it, name):
        return VStr(it.ctx.fresh_str(name), False)


class NoneT(Spec):
    def make(self, it, name):
        return VNone


class Const(Spec):
    def __init__(self, py):
        self.py = py

    def make(self, it, name):
        return from_py(self.py)


class OneOf(Spec):
    """Fork over alternatives (used for Optional[...] and enumerations)."""

    def __init__(self, *alts):
        self.alts = alts

    def make(self, it, name):
        d = it.ctx.choose(len(self.alts))
        return self.alts[d].make(it, name)


def Opt(spec):
    return OneOf(NoneT(), spec)


class Box(Spec):
    def make(self, it, name):
        return VBox(it.ctx.fresh(name, Val))


class Stream(Spec):
    def __init__(self, mode='r'):
        self.mode = mode

    def make(self, it, name):
        ctx = it.ctx
        data = ctx.fresh_str(name + '_data')
        if self.mode == 'w':
            pos = z3.Length(data)
        else:
            pos = ctx.fresh_int(name + '_pos')
            ctx.assume(z3.And(pos >= 0, pos <= z3.Length(data)))
        return ctx.alloc(StreamCell(data, pos, mode=self.mode))


class Obj(Spec):
    def __init__(self, cls, **fields):
        self.cls = cls
        self.fields = fields

    def make(self, it, name):
        ctx = it.ctx
        cls = it.engine.resolve_class(self.cls)
        cell = ObjCell(cls)
        ref = ctx.alloc(cell)
        for k, sp in self.fields.items():
            cell.attrs[k] = sp.make(it, '%s_%s' % (name, k))
        return ref


class ListOf(Spec):
    def __init__(self, elem):
        self.elem = elem

    def make(self, it, name):
        from .values import list_sort
        from .lists import fresh_list
        return it.ctx.alloc(SeqCell(
            fresh_list(it.ctx, list_sort(self.elem), name), self.elem))


class SymDict(Spec):
    """dict with symbolic str keys and boxed scalar values."""

    def make(self, it, name):
        ctx = it.ctx
        arr = ctx.fresh(name + '_map', z3.ArraySort(z3.StringSort(), Val))
        dom = ctx.fresh(name + '_dom', z3.ArraySort(z3.StringSort(),
                                                    z3.BoolSort()))
        cell = DictCell({}, (arr, dom))
        # abstract emptiness of an arbitrary mapping
        cell.nonempty = ctx.fresh_bool(name + '_nonempty')
        return ctx.alloc(cell)


class Record(Spec):
    def __init__(self, **fields):
        self.fields = fields

    def make(self, it, name):
        d = DictCell()
        for k, sp in self.fields.items():
            d.items[k] = sp.make(it, '%s_%s' % (name, k))
        return it.ctx.alloc(d)


class Tup(Spec):
    def __init__(self, *items):
        self.items = items

    def make(self, it, name):
        return VTuple([sp.make(it, '%s_%d' % (name, i))
                       for i, sp in enumerate(self.items)])


class Custom(Spec):
    def __init__(self, fn):
        self.fn = fn

    def make(self, it, name):
        return self.fn(it, name)


# ---------------------------------------------------------------------------
# contracts
# ---------------------------------------------------------------------------
class Contract(object):
    def __init__(self, name, params, requires=(), ensures=(), raises=None,
                 loops=None, modifies=(), result=None, ghost=None,
                 inline=False, lemmas=(), call_effect=None, setup=None,
                 generator=False, notes='', exc_attrs=None,
                 internal_ensures=(), internal_raises=None):
        self.name = name
        self.params = params          # ordered dict name -> Spec
        self.requires = list(requires)  # [(label, clause)]
        self.ensures = list(ensures)
        self.raises = dict(raises or {})  # exc class -> clause or None
        self.loops = dict(loops or {})
        self.modifies = list(modifies)
        self.result = result
        self.ghost = ghost
        self.inline = inline
        self.lemmas = list(lemmas)
        self.call_effect = call_effect
        self.setup = setup
        self.generator = generator
        self.notes = notes
        self.exc_attrs = dict(exc_attrs or {})
        # post-conditions over the function's own locals: proved when the
        # function is verified, not visible (not assumed) at call sites
        self.internal_ensures = list(internal_ensures)
        self.internal_raises = dict(internal_raises or {})
        # further exceptional post-conditions over the callee's locals, each
        # its own obligation: [(exception class, label, clause)]
        self.internal_raises_extra = []
        self._parsed = {}

    def parsed(self, clause):
        if callable(clause):
            return clause
        node = self._parsed.get(clause)
        if node is None:
            node = ast.parse(clause.strip(), mode='eval').body
            self._parsed[clause] = node
        return node


class FunctionVerdict(object):
    def __init__(self, fi, contract):
        self.fi = fi
        self.contract = contract
        self.obligations = []
        self.paths = 0
        self.undecided = []      # reasons (Unsupported etc.)
        self.exit_kinds = {}
        self.time_s = 0.0

    @property
    def name(self):
        return self.fi.qualname


class Engine(object):
    def __init__(self, feas_timeout_ms=400, max_paths=4000):
        self.contracts = {}
        self.inline = set()
        self.feas_timeout_ms = feas_timeout_ms
        self.max_paths = max_paths
        self.spec_funcs = {}
        self.current = None
        self.yield_hook = None
        self.setattr_hooks = {}
        self.class_attr_hooks = {}
        self.exception_hooks = {}
        self.global_hooks = {}
        self.inline_all_repo = False
        from . import specfuncs
        specfuncs.install(self)
        import os
        from .symex import load_hints
        hd = os.path.join(os.path.dirname(os.path.dirname(
            os.path.abspath(__file__))), 'contracts', 'hints')
        if os.path.isdir(hd):
            for fn in sorted(os.listdir(hd)):
                if fn.endswith('.json'):
                    load_hints(os.path.join(hd, fn))

    # -- registry -----------------------------------------------------------
    def add(self, contract):
        self.contracts[contract.name] = contract
        return contract

    def resolve_class(self, qual):
        if isinstance(qual, type):
            return qual
        modname, clsname = qual.rsplit('.', 1)
        module = extract.load_module(modname)[0]
        return getattr(module, clsname)

    def loop_contract(self, fi, ordinal):
        c = self.current_contract_for(fi)
        if c is None:
            return None
        return c.loops.get(ordinal)

    def current_contract_for(self, fi):
        return self.contracts.get(fi.qualname)

    def defining_qn(self, cls, name):
        for k in cls.__mro__:
            if name in k.__dict__:
                return '%s.%s.%s' % (k.__module__, k.__qualname__, name)
        raise Unsupported('%s has no %s' % (cls, name))

    def is_repo_instance(self, py):
        m = getattr(type(py), '__module__', '') or ''
        return m.startswith('pydiffx') and not isinstance(py, type)

    def all_slots(self, cls):
        out = set()
        for k in cls.__mro__:
            sl = k.__dict__.get('__slots__', ())
            if isinstance(sl, str):
                sl = (sl,)
            out |= set(sl)
        return out

    def setattr_hook(self, cls, name):
        h = self.setattr_hooks.get((cls, name))
        if h is not None:
            return h
        if not (getattr(cls, '__module__', '') or '').startswith('pydiffx'):
            return None
        for k in cls.__mro__:
            if name in k.__dict__:
                raw = k.__dict__[name]
                qn = '%s.%s.%s' % (k.__module__, k.__qualname__, name)
                if isinstance(raw, property):
                    if raw.fset is None:
                        return lambda it, obj, v: it.raise_(AttributeError)
                    return lambda it, obj, v, qn=qn: self.call_inline(
                        it, qn, [obj, v], {}, which='set')
                if self.is_repo_instance(raw) and hasattr(type(raw),
                                                          '__set__'):
                    dq = self.defining_qn(type(raw), '__set__')
                    return lambda it, obj, v, raw=raw, dq=dq: \
                        self.call_inline(it, dq, [VConc(raw), obj, v], {})
                break
        slots = self.all_slots(cls)
        has_dict = any('__slots__' not in k.__dict__
                       for k in cls.__mro__ if k is not object)
        if name in slots or has_dict:
            return None
        return lambda it, obj, v: it.raise_(AttributeError)

    def instantiate(self, it, cls, args, kwargs):
        """Calling a repository class: allocate the object and run the
        real __init__ (inlined)."""
        obj = it.ctx.alloc(ObjCell(cls))
        for k in cls.__mro__:
            if '__init__' in k.__dict__ and k is not object:
                qn = '%s.%s.__init__' % (k.__module__, k.__qualname__)
                c = self.contracts.get(qn)
                if c is not None and not c.inline:
                    self.apply_contract(it, c, [obj] + list(args), kwargs)
                else:
                    self.call_inline(it, qn, [obj] + list(args), kwargs)
                break
        return obj

    # -- name resolution ---------------------------------------------------
    def lookup_global(self, it, fr, name):
        if name in self.spec_funcs and it.ctx.spec_mode:
            return self.spec_funcs[name]
        g = fr.globals
        if name in g:
            return self.wrap_global(it, g[name], owner=fr.fi.module,
                                    name=name)
        if hasattr(pybuiltins, name):
            return VConc(getattr(pybuiltins, name))
        if name in self.spec_funcs:
            return self.spec_funcs[name]
        raise Unsupported('name %r cannot be resolved by the engine' % name)

    def qualname_of(self, py):
        mod = getattr(py, '__module__', None)
        qn = getattr(py, '__qualname__', None)
        if mod and qn:
            return '%s.%s' % (mod, qn)
        return None

    def wrap_global(self, it, py, owner=None, name=None):
        if isinstance(py, (bool, int, str, bytes, type(None))):
            return from_py(py)
        if isinstance(py, tuple) and all(
                isinstance(x, (bool, int, str, bytes, type(None)))
                for x in py):
            return from_py(py)
        if isinstance(py, types.FunctionType) and not (
                py.__module__ or '').startswith('pydiffx'):
            return VConc(py)      # library function: modelled or rejected
        if isinstance(py, types.FunctionType):
            qn = self.qualname_of(py)
            if qn in self.contracts and not self.contracts[qn].inline:
                c = self.contracts[qn]
                return VFunc(lambda it, a, k: self.apply_contract(
                    it, c, a, k), qn)
            if qn in self.inline or (qn in self.contracts and
                                     self.contracts[qn].inline):
                return VFunc(lambda it, a, k: self.call_inline(
                    it, qn, a, k), qn)
            if qn in self.global_hooks:
                return VFunc(self.global_hooks[qn], qn)
            if self.inline_all_repo and (py.__module__ or '').startswith(
                    'pydiffx'):
                return VFunc(lambda it, a, k: self.call_inline(
                    it, qn, a, k), qn)
            raise Unsupported('call target %s has no contract' % qn)
        return VConc(py)

    def class_attr(self, it, objref, cell, name):
        """Attribute not found on the instance: methods / properties /
        class constants of the real class."""
        cls = cell.cls
        hook = self.class_attr_hooks.get((cls, name))
        if hook is not None:
            return hook(it, objref)
        for k in cls.__mro__:
            if name in k.__dict__:
                raw = k.__dict__[name]
                break
        else:
            # an instance attribute the contract's object description does
            # not know about: the engine cannot tell whether the real object
            # has it -> undecided, never a spurious AttributeError
            raise Unsupported('attribute %r of %s is not described by the '
                              'contract' % (name, cls.__name__))
        qn = '%s.%s.%s' % (k.__module__, k.__qualname__, name)
        if isinstance(raw, property):
            if qn in self.inline or self.inline_all_repo:
                return self.call_inline(it, qn, [objref], {}, which='get')
            raise Unsupported('property %s not inlined' % qn)
        if self.is_repo_instance(raw) and hasattr(type(raw), '__get__'):
            # descriptor object of a repository class
            dq = self.defining_qn(type(raw), '__get__')
            return self.call_inline(it, dq, [VConc(raw), objref,
                                             VConc(cls)], {})
        if isinstance(raw, types.FunctionType):
            if qn in self.contracts and not self.contracts[qn].inline:
                c = self.contracts[qn]
                return VFunc(lambda it, a, kw: self.apply_contract(
                    it, c, [objref] + a, kw), qn)
            if qn in self.inline or qn in self.contracts or \
                    self.inline_all_repo:
                return VFunc(lambda it, a, kw: self.call_inline(
                    it, qn, [objref] + a, kw), qn)
            raise Unsupported('method %s has no contract' % qn)
        if isinstance(raw, classmethod):
            raise Unsupported('classmethod %s' % qn)
        return self.wrap_global(it, raw)

    def make_exception(self, it, cls, args, kwargs):
        hook = self.exception_hooks.get(cls)
        if hook is not None:
            return hook(it, cls, args, kwargs)
        return VExc(cls, args, dict(kwargs))

    def on_yield(self, it, v):
        it.ctx.yielded.append(v)
        if self.yield_hook:
            self.yield_hook(it, v)

    # -- clause evaluation ----------------------------------------------
    def eval_value(self, it, clause, env):
        ctx = it.ctx
        if callable(clause):
            return clause(it, env)
        contract = self.cur_contract
        node = contract.parsed(clause)
        fr = ctx.frame
        saved = fr.locals
        fr.locals = dict(saved)
        fr.locals.update(getattr(ctx, 'ghost_env', {}))
        fr.locals.update(env)
        ctx.spec_mode += 1
        try:
            return it.ev(node)
        finally:
            ctx.spec_mode -= 1
            fr.locals = saved

    def eval_clause(self, it, clause, env):
        v = self.eval_value(it, clause, env)
        if isinstance(v, z3.BoolRef):
            return v
        return truth(it.ctx, v)

    # -- binding arguments ------------------------------------------------
    def bind_args(self, it, fi, args, kwargs):
        a = fi.node.args
        names = [x.arg for x in a.args]
        bound = {}
        if len(args) > len(names) and not a.vararg:
            it.raise_(TypeError)
        for n, v in zip(names, args):
            bound[n] = v
        extra = {}
        for k, v in kwargs.items():
            if k in names or k in [x.arg for x in a.kwonlyargs]:
                if k in bound:
                    it.raise_(TypeError)
                bound[k] = v
            elif a.kwarg:
                extra[k] = v
            else:
                it.raise_(TypeError)
        defaults = a.defaults
        for n, d in zip(names[len(names) - len(defaults):], defaults):
            if n not in bound:
                bound[n] = self.eval_default(it, fi, d)
        for n in names:
            if n not in bound:
                it.raise_(TypeError)
        if a.kwarg:
            bound[a.kwarg.arg] = it.ctx.alloc(DictCell(extra))
        return bound

    def eval_default(self, it, fi, d):
        fr = Frame(fi, fi.module.__dict__)
        self.prep_frame(fr)
        if fi.clsname:
            # class-level names are visible in defaults
            fr.globals = dict(fi.module.__dict__)
            cls = getattr(fi.module, fi.clsname)
            fr.globals.update({k: v for k, v in vars(cls).items()})
        it.ctx.frames.append(fr)
        try:
            return it.ev(d)
        finally:
            it.ctx.frames.pop()

    def prep_frame(self, fr):
        fi = fr.fi
        body = extract.body_of(fi)
        fr.fi_assigned = assigned_names(body) | set(
            a.arg for a in fi.node.args.args)
        ids = {}
        n = 0
        for node in ast.walk(fi.node):
            if isinstance(node, (ast.While, ast.For)):
                pass
        # ordinals in source order
        loops = [x for x in ast.walk(fi.node)
                 if isinstance(x, (ast.While, ast.For))]
        loops.sort(key=lambda x: (x.lineno, x.col_offset))
        for i, x in enumerate(loops):
            ids[id(x)] = i
        fr.loop_ids = ids

    # -- inlining --------------------------------------------------------
    def call_inline(self, it, qn, args, kwargs, which='get'):
        fis = extract.find_all_defs(qn)
        fi = fis[0]
        if len(fis) > 1:
            # property getter / setter share a name: pick by decorator
            for f in fis:
                decs = [ast.unparse(d) for d in f.node.decorator_list]
                is_setter = any(d.endswith('.setter') for d in decs)
                if is_setter == (which == 'set'):
                    fi = f
        ctx = it.ctx
        bound = self.bind_args(it, fi, args, kwargs)
        fr = Frame(fi, fi.module.__dict__)
        self.prep_frame(fr)
        fr.locals.update(bound)
        ctx.frames.append(fr)
        ctx.ghost.setdefault('inlined', set()).add(qn)
        try:
            it.exec_block(extract.body_of(fi))
            return VNone
        except _Return as r:
            return r.value
        finally:
            ctx.frames.pop()

    # -- using a callee's contract at a call site ---------------------------
    def apply_contract(self, it, c, args, kwargs):
        ctx = it.ctx
        fi = extract.find_function(c.name)
        bound = self.bind_args(it, fi, args, kwargs)
        caller_contract = self.cur_contract
        site = '%s@call%d' % (c.name.rsplit('.', 1)[-1],
                              ctx.frame.call_ord)
        fr = Frame(fi, fi.module.__dict__)
        self.prep_frame(fr)
        fr.locals.update(bound)
        ctx.frames.append(fr)
        self.cur_contract = c
        saved_ghost = getattr(ctx, 'ghost_env', {})
        saved_olds = getattr(ctx, 'old_vals', {})
        try:
            ctx.caller_ghost = saved_ghost
            ctx.ghost_env = {}
            if c.ghost:
                ctx.ghost_env = c.ghost(it, bound)
            for label, clause in c.requires:
                ctx.oblige('%s.pre.%s' % (site, label),
                           self.eval_clause(it, clause, {}), kind='call-pre')
            olds = self.capture_olds(it, c)
            # exceptional outcomes
            for exc, clause in c.raises.items():
                # the callee may raise `exc`; the raised object satisfies the
                # callee's exceptional post-condition
                if ctx.choose(2) == 0:
                    self.havoc_modifies(it, c)
                    attrs = {}
                    for an, sp in c.exc_attrs.get(exc, {}).items():
                        attrs[an] = sp.make(it, 'exc_' + an)
                    ex = VExc(exc, [], attrs)
                    if clause is not None:
                        env = {'exc': ex}
                        for k2, v2 in attrs.items():
                            env['exc_' + k2] = v2
                        ctx.old_vals = olds
                        ctx.assume(self.eval_clause(it, clause, env))
                    raise PyRaise(ex)
            # exceptions declared `raises_iff`: when the callee did not
            # raise, its raising condition did not hold
            for exc in getattr(c, 'raises_iff', ()):
                clause = c.raises.get(exc)
                if clause is not None:
                    ctx.assume(z3.Not(self.eval_clause(it, clause, {})))
            self.havoc_modifies(it, c)
            if c.call_effect:
                res = c.call_effect(it, bound)
            elif c.result is not None:
                res = c.result.make(it, 'ret_' + c.name.rsplit('.', 1)[-1])
            else:
                res = VNone
            env = {'result': res}
            ctx.old_vals = olds
            for label, clause in c.ensures:
                ctx.assume(self.eval_clause(it, clause, env))
            return res
        finally:
            ctx.ghost_env = saved_ghost
            ctx.old_vals = saved_olds
            self.cur_contract = caller_contract
            ctx.frames.pop()

    def havoc_modifies(self, it, c):
        from . import loops
        for p in c.modifies:
            cell, field = loops.resolve_path(it, p)
            loops.havoc_cell_field(it.ctx, cell, field)

    def capture_olds(self, it, c):
        olds = {}
        for label, clause in list(c.ensures) + list(c.internal_ensures) + [
                (k.__name__, v) for k, v in list(c.raises.items())
                + list(c.internal_raises.items()) if v is not None]:
            if callable(clause):
                continue
            node = c.parsed(clause)
            for sub in ast.walk(node):
                if isinstance(sub, ast.Call) and \
                        isinstance(sub.func, ast.Name) and \
                        sub.func.id == 'old':
                    it.ctx.spec_mode += 1
                    try:
                        olds[id(sub)] = it.ev(sub.args[0])
                    finally:
                        it.ctx.spec_mode -= 1
        return olds

    # -- verifying one function against its own contract ------------------
    def verify(self, name, time_budget_s=600):
        c = self.contracts[name]
        fi = extract.find_function(name)
        verdict = FunctionVerdict(fi, c)
        t0 = time.time()
        work = [[]]
        seen = 0
        while work:
            if seen >= self.max_paths or time.time() - t0 > time_budget_s:
                verdict.undecided.append('path budget exhausted (%d paths)'
                                         % seen)
                break
            prefix = work.pop()
            seen += 1
            ctx = Ctx(self, prefix)
            it = Interp(ctx, self)
            kind = self.run_path(it, fi, c, verdict)
            verdict.exit_kinds[kind] = verdict.exit_kinds.get(kind, 0) + 1
            for ob in ctx.obligations:
                ob.id = '%s#%s@p%d' % (name.split('.', 1)[-1], ob.label,
                                       seen)
                ob.func = name
                verdict.obligations.append(ob)
            work.extend(ctx.alternatives)
        verdict.paths = seen
        verdict.time_s = time.time() - t0
        return verdict

    def run_path(self, it, fi, c, verdict):
        ctx = it.ctx
        self.cur_contract = c
        fr = Frame(fi, fi.module.__dict__)
        self.prep_frame(fr)
        ctx.frames.append(fr)
        ctx.ghost_env = {}
        ctx.old_vals = {}
        try:
            try:
                for pname, spec in c.params.items():
                    fr.locals[pname] = spec.make(it, pname)
                # defaults for parameters the contract leaves out
                bound = self.bind_args(it, fi, [], dict(fr.locals))
                fr.locals.update(bound)
                if c.ghost:
                    ctx.ghost_env = c.ghost(it, fr.locals)
                if c.setup:
                    c.setup(it, fr.locals)
                for label, clause in c.requires:
                    ctx.assume(self.eval_clause(it, clause, {}))
                ctx.old_vals = self.capture_olds(it, c)
                ctx.entry_locals = dict(fr.locals)
            except PyRaise as pr:
                raise Unsupported('exception while building the initial '
                                  'state: %s' % pr.exc.cls.__name__)
            try:
                it.exec_block(extract.body_of(fi))
                result = VNone
            except _Return as r:
                result = r.value
            except PyRaise as pr:
                self.check_raise(it, c, pr, fr)
                return 'raise:' + pr.exc.cls.__name__
            # normal exit: post-conditions
            env = {'result': result}
            if getattr(c, 'exit_lemmas', None):
                rc = ctx.heap.get(result.ref) if isinstance(result, VRef) \
                    else result
                for f in c.exit_lemmas(it, fr.locals, rc):
                    ctx.assume(f)
            # parameters keep their entry names for the post-state
            for label, clause in list(c.ensures) + list(c.internal_ensures):
                ctx.oblige('post.%s' % label,
                           self.eval_clause(it, clause, env), kind='post',
                           where=fi.file)
            # canary bookkeeping: path reached a normal exit
            ctx.oblige('canary.return', z3.BoolVal(False), kind='canary')
            return 'return'
        except PathEnd:
            return 'cut'
        except Unsupported as u:
            verdict.undecided.append('unsupported: %s' % u)
            return 'unsupported'
        finally:
            ctx.frames.pop()

    def check_raise(self, it, c, pr, fr):
        ctx = it.ctx
        exc = pr.exc
        allowed = None
        for cls, clause in c.raises.items():
            if issubclass(exc.cls, cls):
                allowed = (cls, clause)
                break
        label = 'raises.%s' % exc.cls.__name__
        if allowed is None:
            # the path must be infeasible
            ctx.oblige(label + '.unexpected', z3.BoolVal(False),
                       kind='exc-freedom', where=pr.where or '')
            return
        cls, clause = allowed
        env = {'exc': exc}
        for k, v in exc.attrs.items():
            env['exc_' + k] = v
        goal = self.eval_clause(it, clause, env) if clause is not None \
            else z3.BoolVal(True)
        ctx.oblige(label + '.when', goal, kind='exc-post',
                   where=pr.where or '')
        for icls, iclause in c.internal_raises.items():
            if issubclass(exc.cls, icls):
                ctx.oblige(label + '.internal',
                           self.eval_clause(it, iclause, env),
                           kind='exc-post', where=pr.where or '')
        for icls, ilabel, iclause in getattr(c, 'internal_raises_extra', ()):
            if issubclass(exc.cls, icls):
                ctx.oblige('%s.%s' % (label, ilabel),
                           self.eval_clause(it, iclause, env),
                           kind='exc-post', where=pr.where or '')
        ctx.oblige('canary.' + label, z3.BoolVal(False), kind='canary')


# ---------------------------------------------------------------------------
# discharge
# ---------------------------------------------------------------------------
def discharge(obligations, timeout_s=20, jobs=12, solvers=('z3', 'cvc5')):
    """Runs the portfolio on every non-trivial obligation.  For each
    obligation the relevance slices are tried first (short budget); the first
    `unsat` discharges it.  `sat` is only believed on the full VC."""
    todo = []
    for ob in obligations:
        if ob.kind == 'canary':
            continue
        if ob.trivially_true():
            ob.result = smt.Result(smt.UNSAT, 'simplifier', 0.0)
            continue
        todo.append(ob)

    # SMT text is produced in this thread (the z3 API is not thread-safe);
    # worker threads only drive solver child processes
    pre = {}
    for ob in todo:
        pre[id(ob)] = ob.slices() if hasattr(ob, 'slices') else \
            [('full', ob.smt2())]

    failed_labels = {}

    def one(ob):
        ob2, r = one_inner(ob)
        if r is not None and r.status != smt.UNSAT:
            failed_labels[ob.label] = failed_labels.get(ob.label, 0) + 1
        return ob2, r

    def one_inner(ob):
        slices = list(pre[id(ob)])
        t_used = 0.0
        last = None
        if failed_labels.get(ob.label, 0) >= 2:
            # two obligations with this label already failed in this run:
            # one quick attempt only (the verdict of the check is settled
            # by the first failures; this keeps mutated trees fast)
            r = smt.solve_text(slices[-1][1], timeout_s=2, solvers=solvers,
                               want_model=True)
            if r.status == smt.UNKNOWN:
                r.raw = 'skipped after earlier failures of the same label'
            return ob, r
        # cheap first attempt on the whole VC; many are easy as they stand
        if len(slices) > 1:
            r = smt.solve_text(slices[-1][1], timeout_s=2, solvers=solvers,
                               want_model=True)
            t_used += r.time_s
            if r.status in (smt.UNSAT, smt.SAT):
                r.time_s = t_used
                return ob, r
        # refinement on the full VC before the (slow) monolithic attempt
        total_budget = max(35.0, float(timeout_s))
        for name, text in slices:
            full = (name == 'full')
            if not full and t_used > total_budget:
                continue
            if name == 'cegar':
                r = smt.solve_text(text, timeout_s=min(timeout_s, 15),
                                   solvers=('cegar',), want_model=False)
                t_used += r.time_s
                if r.status == smt.UNSAT:
                    r.time_s = t_used
                    return ob, r
                continue
            if full:
                budget = max(5.0, min(timeout_s, total_budget + 15 - t_used))
            budget = budget if full else min(
                timeout_s, 3 if name.startswith(('rand', 'euf')) else
                (15 if name in ('hint', 'manual') else 6))
            r = smt.solve_text(text, timeout_s=budget, solvers=solvers,
                               want_model=full)
            t_used += r.time_s
            last = r
            if r.status == smt.UNSAT:
                r.time_s = t_used
                r.solver = r.solver + ('' if full else '/' + name)
                return ob, r
            if full:
                r.time_s = t_used
                return ob, r
        return ob, last
    from concurrent.futures import ThreadPoolExecutor
    # obligations whose smallest slice is textually identical need one
    # solver run: solve one representative per group first, re-use `unsat`
    groups = {}
    for ob in todo:
        key = smt.sha(pre[id(ob)][0][1])
        groups.setdefault(key, []).append(ob)
    reps = [g[0] for g in groups.values()]
    with ThreadPoolExecutor(max_workers=jobs) as ex:
        for ob, r in ex.map(one, reps):
            ob.result = r
    rest = []
    for key, g in groups.items():
        r0 = g[0].result
        first_name = pre[id(g[0])][0][0]
        for ob in g[1:]:
            if r0.status == smt.UNSAT and r0.solver.endswith(
                    '/' + first_name):
                ob.result = smt.Result(smt.UNSAT, r0.solver + '(shared)',
                                       0.0)
            else:
                rest.append(ob)
    with ThreadPoolExecutor(max_workers=jobs) as ex:
        for ob, r in ex.map(one, rest):
            ob.result = r
    return obligations


def check_canaries(obligations, timeout_s=5, jobs=12):
    """A canary (goal False under the path's assumptions) must NOT be
    provable: unsat means the path (or the contract's requires) is
    contradictory -> vacuity."""
    items = [(ob.id, ob.smt2()) for ob in obligations
             if ob.kind == 'canary']
    res = smt.solve_many(items, timeout_s=timeout_s, jobs=jobs)
    vacuous = []
    sat = 0
    for ob in obligations:
        if ob.kind == 'canary':
            ob.result = res[ob.id]
            if ob.result.status == smt.UNSAT:
                vacuous.append(ob)
            elif ob.result.status == smt.SAT:
                sat += 1
    return sat, vacuous
