"""Models of bytes/str methods (A-bytes, A-codec)."""
import codecs

import z3

from .values import (VInt, VBool, VNone, VStr, VTuple, VBox, VRef, VConc,
                     ListCell, SeqCell, Unsupported, is_concrete_str,
                     concrete_str, SeqString, L_len, L_at)
from .symex import as_int, unbox_choose, slice_str, norm_index
from . import models as M

S = z3.StringVal


def _arg_str(it, recv, a):
    if isinstance(a, VBox):
        a = unbox_choose(it.ctx, a)
    if not isinstance(a, VStr) or a.b != recv.b:
        it.raise_(TypeError)
    return a


def split_facts(ctx, d, sep, L):
    """True facts about L = d.split(sep) for a non-empty separator
    (A-bytes; each is checked against CPython by the differential test):
      * len(L) = Count(d, sep) + 1 >= 1
      * no element contains sep
      * Join(sep, L) == d
      * first element: if sep not in d then L == [d]
        else L[0] == d[:d.find(sep)]
      * last element is the text after the last occurrence:
        d.endswith(sep) <=> ... is NOT generally L[-1]=='' (overlaps), so
        only: L[-1] is a suffix of d, and if L[-1]=='' and len(L)>1 then
        d.endswith(sep)
    """
    n = L_len(L)
    j = ctx.fresh_int('sj')
    ctx.assume(n == M.F_Count(d, sep) + 1)          # B1
    ctx.assume(M.F_Count(d, sep) >= 0)
    ctx.assume_forall(j, z3.Implies(                 # B2
        z3.And(j >= 0, j < n), z3.Not(z3.Contains(L_at(L, j), sep))),
        defaults=[z3.IntVal(0), n - 1, n - 2])
    ctx.assume(M.F_Join(sep, L) == d)                # B3
    ctx.assume(z3.Implies(z3.Not(z3.Contains(d, sep)),
                          z3.And(n == 1, L_at(L, 0) == d)))
    ctx.assume(z3.Implies(z3.Contains(d, sep), n >= 2))
    if is_unbordered_const(sep):                     # B6
        ctx.assume(z3.SuffixOf(sep, d) == z3.And(
            n >= 2, L_at(L, n - 1) == z3.StringVal('')))


def is_unbordered_const(sep):
    s = z3.simplify(sep)
    if not z3.is_string_value(s):
        return False
    from .values import VStr
    v = concrete_str(VStr(s, True))
    return len(v) > 0 and not any(v[:k] == v[-k:] for k in range(1, len(v)))


# positional arity (min, max) and keyword names each modelled method
# understands; anything else is outside the subset (never silently ignored)
_SIGS = {'find': (1, 2, ()), 'index': (1, 2, ()),
         'startswith': (1, 1, ()), 'endswith': (1, 1, ()),
         'replace': (2, 2, ()), 'strip': (0, 1, ()), 'split': (1, 2, ()),
         'join': (1, 1, ()), 'encode': (0, 1, ()),
         'isdigit': (0, 0, ()), 'rstrip': (0, 1, ()), 'lstrip': (0, 1, ()),
         'decode': (0, 2, ('errors',))}


def str_method(it, recv, name, args, kwargs):
    ctx = it.ctx
    e = recv.e
    if name in ('strip', 'rstrip', 'lstrip') and all(
            a is VNone or is_concrete_str(a) for a in args):
        # deterministic: one result per (method, subject, character set) and
        # path - two calls on the same text denote the same string
        cache = ctx.ghost.setdefault('strip_cache', {})
        key = (name, e.get_id(), tuple(
            None if a is VNone else concrete_str(a) for a in args))
        hit = cache.get(key)
        if hit is not None:
            return hit[0]
        r = _str_method(it, recv, name, args, kwargs)
        cache[key] = (r, e)          # owns its key
        return r
    return _str_method(it, recv, name, args, kwargs)


def _str_method(it, recv, name, args, kwargs):
    ctx = it.ctx
    e = recv.e
    sig = _SIGS.get(name)
    if sig is not None and not (
            sig[0] <= len(args) <= sig[1] and set(kwargs) <= set(sig[2])):
        raise Unsupported('%s.%s with %d positional / %s keyword arguments'
                          % (recv.tname, name, len(args), sorted(kwargs)))
    if name == 'find' or name == 'index':
        sub = _arg_str(it, recv, args[0])
        start = as_int(args[1]) if len(args) > 1 else z3.IntVal(0)
        if len(args) > 1:
            start = norm_index(start, z3.Length(e))
        r = z3.simplify(z3.IndexOf(e, sub.e, start))
        if name == 'index':
            if not ctx.branch(r >= 0):
                it.raise_(ValueError)
        return VInt(r)
    if name in ('startswith', 'endswith'):
        a = args[0]
        alts = a.items if isinstance(a, VTuple) else [a]
        if isinstance(a, VConc) and isinstance(a.py, tuple):
            alts = [M.from_py(x) for x in a.py]
        conds = []
        for x in alts:
            x = _arg_str(it, recv, x)
            conds.append(z3.PrefixOf(x.e, e) if name == 'startswith'
                         else z3.SuffixOf(x.e, e))
        return VBool(z3.Or(conds) if len(conds) != 1 else conds[0])
    if name == 'replace' and len(args) == 2:
        a = _arg_str(it, recv, args[0])
        b = _arg_str(it, recv, args[1])
        if is_concrete_str(recv) and is_concrete_str(a) and \
                is_concrete_str(b):
            return VStr(concrete_str(recv).replace(concrete_str(a),
                                                   concrete_str(b)), recv.b)
        if not is_concrete_str(a) or len(concrete_str(a)) == 0:
            raise Unsupported('str.replace of a symbolic / empty pattern')
        # replace-all as an uninterpreted function with sound facts only
        f = z3.Function('ReplaceAll', z3.StringSort(), z3.StringSort(),
                        z3.StringSort(), z3.StringSort())
        r = f(e, a.e, b.e)
        ctx.assume(z3.Implies(z3.Not(z3.Contains(e, a.e)), r == e))
        if is_concrete_str(b) and len(concrete_str(b)) > 0:
            # a non-empty replacement never makes the string empty
            ctx.assume((z3.Length(r) == 0) == (z3.Length(e) == 0))
        if is_concrete_str(b) and len(concrete_str(b)) >= \
                len(concrete_str(a)):
            ctx.assume(z3.Length(r) >= z3.Length(e))
        return VStr(r, recv.b)
    if name == 'isdigit':
        digits = z3.Plus(z3.Range('0', '9'))
        if recv.b:
            return VBool(z3.InRe(e, digits))       # bytes: ASCII digits only
        # str: exact on ASCII-only text, open otherwise (Unicode digits)
        b = ctx.fresh_bool('isdigit')
        ascii_only = z3.InRe(e, z3.Star(z3.Range(chr(0), chr(127))))
        ctx.assume(z3.Implies(z3.InRe(e, digits), b))
        ctx.assume(z3.Implies(z3.And(ascii_only,
                                     z3.Not(z3.InRe(e, digits))),
                              z3.Not(b)))
        return VBool(b)
    if name in ('strip', 'rstrip', 'lstrip') and (args or name != 'strip'):
        # strip of an explicit, concrete character set (or of whitespace
        # for the one-sided forms): exact
        if args and args[0] is not VNone:
            cs = _arg_str(it, recv, args[0])
            if not is_concrete_str(cs):
                raise Unsupported('%s of a symbolic character set' % name)
            chars = concrete_str(cs)
            if not chars:
                return recv
            cls = z3.Union(*[z3.Re(S(c)) for c in chars]) \
                if len(chars) > 1 else z3.Re(S(chars))
        else:
            cls = M.RE_WS
        left = ctx.fresh_str('lstrip') if name != 'rstrip' else S('')
        right = ctx.fresh_str('rstrip') if name != 'lstrip' else S('')
        r = ctx.fresh_str(name)
        ctx.assume(e == z3.Concat(left, r, right))
        one = lambda k: z3.SubString(r, k, 1)
        if name != 'rstrip':
            ctx.assume(z3.InRe(left, z3.Star(cls)))
            ctx.assume(z3.Or(z3.Length(r) == 0,
                             z3.Not(z3.InRe(one(0), cls))))
        if name != 'lstrip':
            ctx.assume(z3.InRe(right, z3.Star(cls)))
            ctx.assume(z3.Or(z3.Length(r) == 0, z3.Not(
                z3.InRe(one(z3.Length(r) - 1), cls))))
        return VStr(r, recv.b)
    if name == 'strip' and not args:
        r = ctx.fresh_str('strip')
        a = ctx.fresh_str('lws')
        b = ctx.fresh_str('rws')
        ctx.assume(e == z3.Concat(a, r, b))
        ctx.assume(z3.InRe(a, z3.Star(M.RE_WS)))
        ctx.assume(z3.InRe(b, z3.Star(M.RE_WS)))
        ctx.assume(z3.InRe(r, z3.Union(
            z3.Re(S('')), M.RE_NONWS,
            z3.Concat(M.RE_NONWS, z3.Star(M.RE_ANY), M.RE_NONWS))))
        # consequence of the three facts above, stated for the solvers:
        # the result is empty exactly when the text is all whitespace
        ctx.assume((z3.Length(r) == 0) == z3.InRe(e, z3.Star(M.RE_WS)))
        return VStr(r, recv.b)
    if name == 'split':
        if not args:
            raise Unsupported('split() on whitespace')
        sep = _arg_str(it, recv, args[0])
        if not ctx.branch(z3.Length(sep.e) > 0):
            it.raise_(ValueError)
        maxsplit = M._const_int(args[1]) if len(args) > 1 else None
        kind = 'bytes' if recv.b else 'str'
        if maxsplit is None and len(args) > 1:
            raise Unsupported('symbolic maxsplit')
        if maxsplit == 1:
            if ctx.branch(z3.Contains(e, sep.e)):
                # word-equation view: e = a . sep . b with the first
                # occurrence of sep (for a one-character separator: sep does
                # not occur in a)
                a = M.F_SplitHead(e, sep.e)
                b = M.F_SplitTail(e, sep.e)
                ctx.assume(e == z3.Concat(a, sep.e, b))
                if is_concrete_str(sep) and len(concrete_str(sep)) == 1:
                    ctx.assume(z3.Not(z3.Contains(a, sep.e)))
                else:
                    ctx.assume(z3.IndexOf(e, sep.e, 0) == z3.Length(a))
                return ctx.alloc(ListCell([VStr(a, recv.b),
                                           VStr(b, recv.b)]))
            return ctx.alloc(ListCell([recv]))
        if maxsplit is not None:
            raise Unsupported('split maxsplit=%r' % maxsplit)
        if is_concrete_str(recv) and is_concrete_str(sep) and \
                len(concrete_str(sep)) > 0 and ctx.spec_mode == 0 and \
                getattr(ctx, 'fold_split', False):
            return ctx.alloc(ListCell([
                VStr(p, recv.b)
                for p in concrete_str(recv).split(concrete_str(sep))]))
        L = M.F_Split(e, sep.e)
        split_facts(ctx, e, sep.e, L)
        ctx.ghost.setdefault('splits', []).append((e, sep.e, L))
        return ctx.alloc(SeqCell(L, kind))
    if name == 'join':
        src = args[0]
        items = M.iter_concrete(it, src)
        if items is not None:
            parts = []
            for k, x in enumerate(items):
                x = _arg_str(it, recv, x)
                if k:
                    parts.append(e)
                parts.append(x.e)
            if not parts:
                return VStr(S(''), recv.b)
            return VStr(z3.simplify(z3.Concat(*parts)) if len(parts) > 1
                        else parts[0], recv.b)
        c = ctx.cell(src) if isinstance(src, VRef) else None
        if isinstance(c, SeqCell):
            if c.elem != ('bytes' if recv.b else 'str'):
                it.raise_(TypeError)
            if is_concrete_str(recv) and concrete_str(recv) == '':
                return VStr(M.F_ConcatAll(c.e), recv.b)
            return VStr(M.F_Join(e, c.e), recv.b)
        raise Unsupported('join over %r' % (src,))
    if name == 'encode':
        if recv.b:
            it.raise_(AttributeError)
        return encode(it, recv, args[0] if args else VStr('utf-8', False))
    if name == 'decode':
        if not recv.b:
            it.raise_(AttributeError)
        errors = args[1] if len(args) > 1 else kwargs.get('errors')
        if errors is not None:
            if is_concrete_str(errors) and concrete_str(errors) in (
                    'replace', 'ignore', 'backslashreplace'):
                enc = _codec_arg(it, args[0])
                if is_concrete_str(enc):
                    try:
                        codecs.lookup(concrete_str(enc))
                    except LookupError:
                        it.raise_(LookupError)
                    return VStr(ctx.fresh_str('lossy'), False)
            raise Unsupported('decode with errors=%r' % (errors,))
        return decode(it, recv, args[0] if args else VStr('utf-8', False))
    if name == 'getvalue':
        raise Unsupported('getvalue on string')
    raise Unsupported('%s.%s' % (recv.tname, name))


class UnicodeEncodeErrorT(UnicodeEncodeError):
    pass


def _codec_arg(it, enc):
    ctx = it.ctx
    if isinstance(enc, VBox):
        enc = unbox_choose(ctx, enc)
    if not isinstance(enc, VStr) or enc.b:
        it.raise_(TypeError)
    return enc


def encode(it, text, enc):
    ctx = it.ctx
    enc = _codec_arg(it, enc)
    if is_concrete_str(enc):
        name = concrete_str(enc)
        try:
            info = codecs.lookup(name)
            canon = info.name
        except LookupError:
            it.raise_(LookupError)
        if not getattr(info, '_is_text_encoding', True):
            it.raise_(LookupError)
        ctx.assume(M.F_TextCodec(enc.e))
        ctx.assume(M.F_CodecKnown(enc.e))
        if canon == 'ascii':
            if not ctx.branch(z3.InRe(text.e, M.RE_ASCII)):
                it.raise_(UnicodeEncodeError)
            return VStr(text.e, True)
    if not ctx.branch(M.text_codec(ctx, enc.e)):
        it.raise_(LookupError)
    if not ctx.branch(M.F_Encodable(enc.e, text.e)):
        it.raise_(UnicodeEncodeError)
    return VStr(M.F_Enc(enc.e, text.e), True)


def decode(it, data, enc):
    ctx = it.ctx
    enc = _codec_arg(it, enc)
    if is_concrete_str(enc):
        name = concrete_str(enc)
        try:
            info = codecs.lookup(name)
            canon = info.name
        except LookupError:
            it.raise_(LookupError)
        if not getattr(info, '_is_text_encoding', True):
            it.raise_(LookupError)
        ctx.assume(M.F_TextCodec(enc.e))
        ctx.assume(M.F_CodecKnown(enc.e))
        if canon == 'ascii':
            if not ctx.branch(z3.InRe(data.e, M.RE_ASCII)):
                it.raise_(UnicodeDecodeError)
            return VStr(data.e, False)
    if not ctx.branch(M.text_codec(ctx, enc.e)):
        it.raise_(LookupError)
    if not ctx.branch(M.F_Decodable(enc.e, data.e)):
        it.raise_(UnicodeDecodeError)
    return VStr(M.F_Dec(enc.e, data.e), False)
