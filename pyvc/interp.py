"""Statement / expression interpreter of the pyvc subset."""
import ast
import builtins as pybuiltins
import re
import types

import z3

from .values import (V, VInt, VBool, VNone, VStr, VTuple, VBox, VRef, VConc,
                     VFunc, VExc, VMatch, Val, ListCell, SeqCell, DictCell,
                     ObjCell, StreamCell, Unsupported, box, from_py)
from .symex import (PathEnd, _Return, _Break, _Continue, PyRaise, Frame,
                    truth, to_bool, eq, as_int, seq_elem, elem_expr,
                    norm_index, slice_str, unbox_choose, where_of, elem_sort)
from . import models


class BoundMethod(V):
    tname = 'method'

    def __init__(self, recv, name):
        self.recv = recv
        self.name = name


class Interp(object):
    def __init__(self, ctx, engine):
        self.ctx = ctx
        self.engine = engine
        ctx.it = self

    # ------------------------------------------------------------------
    # raising
    # ------------------------------------------------------------------
    def raise_(self, cls, *args, **attrs):
        node = getattr(self, 'cur_node', None)
        where = None
        if node is not None and self.ctx.frames:
            where = '%s (raised by the model of an operation)' % where_of(
                self.ctx.frame.fi, node)
        raise PyRaise(VExc(cls, args, attrs), where)

    # ------------------------------------------------------------------
    # statements
    # ------------------------------------------------------------------
    def exec_block(self, stmts):
        for s in stmts:
            self.exec_stmt(s)

    def exec_stmt(self, s):
        m = getattr(self, 'st_' + type(s).__name__, None)
        if m is None:
            raise Unsupported('statement %s at %s' % (
                type(s).__name__, where_of(self.ctx.frame.fi, s)))
        self.cur_node = s
        return m(s)

    def st_Pass(self, s):
        pass

    def st_Expr(self, s):
        if isinstance(s.value, ast.Constant) and \
                isinstance(s.value.value, str):
            return
        self.ev(s.value)

    def st_Return(self, s):
        raise _Return(self.ev(s.value) if s.value is not None else VNone)

    def st_Break(self, s):
        raise _Break()

    def st_Continue(self, s):
        raise _Continue()

    def st_Assign(self, s):
        v = self.ev(s.value)
        for t in s.targets:
            self.assign(t, v)

    def st_AugAssign(self, s):
        cur = self.ev(_load(s.target))
        rhs = self.ev(s.value)
        from .values import VRef, ListCell
        if isinstance(s.op, ast.Add) and isinstance(cur, VRef) and \
                isinstance(self.ctx.cell(cur), ListCell):
            # list += iterable extends IN PLACE (aliases see it)
            items = models.iter_concrete(self, rhs)
            if items is None:
                raise Unsupported('list += symbolic-length iterable')
            self.ctx.cell(cur).items.extend(items)
            self.assign(s.target, cur)
            return
        v = self.binop(s.op, cur, rhs, s)
        self.assign(s.target, v)

    def st_Assert(self, s):
        c = self.ev(s.test)
        if not to_bool(self.ctx, c):
            self.raise_(AssertionError)

    def st_If(self, s):
        if to_bool(self.ctx, self.ev(s.test)):
            self.exec_block(s.body)
        else:
            self.exec_block(s.orelse)

    def st_Raise(self, s):
        if s.exc is None:
            cur = getattr(self, 'handling', None)
            if cur is None:
                raise Unsupported('bare raise outside handler')
            raise PyRaise(cur)
        v = self.ev(s.exc)
        if isinstance(v, VConc) and isinstance(v.py, type):
            v = VExc(v.py, [])
        if not isinstance(v, VExc):
            raise Unsupported('raise of %r' % (v,))
        raise PyRaise(v, where_of(self.ctx.frame.fi, s))

    def st_Try(self, s):
        try:
            try:
                self.exec_block(s.body)
            except PyRaise as pr:
                for h in s.handlers:
                    if self.handler_matches(h, pr.exc):
                        if h.name:
                            self.ctx.frame.locals[h.name] = pr.exc
                        old = getattr(self, 'handling', None)
                        self.handling = pr.exc
                        try:
                            self.exec_block(h.body)
                        finally:
                            self.handling = old
                        break
                else:
                    raise
            else:
                self.exec_block(s.orelse)
        finally:
            if s.finalbody:
                # executed on every exit, incl. exceptional ones
                self.exec_block(s.finalbody)

    def handler_matches(self, h, exc):
        if h.type is None:
            return True
        t = self.ev(h.type)
        classes = []
        if isinstance(t, VTuple):
            classes = [i.py for i in t.items]
        elif isinstance(t, VConc):
            classes = [t.py]
        else:
            raise Unsupported('except clause type')
        return any(issubclass(exc.cls, c) for c in classes)

    def st_With(self, s):
        if len(s.items) != 1:
            raise Unsupported('with: several items')
        item = s.items[0]
        cm = self.ev(item.context_expr)
        cell = self.ctx.cell(cm) if isinstance(cm, VRef) else None
        if not isinstance(cell, StreamCell):
            raise Unsupported('with on non-stream')
        if item.optional_vars is not None:
            self.assign(item.optional_vars, cm)
        try:
            self.exec_block(s.body)
        finally:
            cell.closed = z3.BoolVal(True)

    def st_While(self, s):
        from . import loops
        loops.exec_while(self, s)

    def st_For(self, s):
        from . import loops
        loops.exec_for(self, s)

    def st_Delete(self, s):
        raise Unsupported('del')

    # ------------------------------------------------------------------
    # assignment targets
    # ------------------------------------------------------------------
    def assign(self, t, v):
        ctx = self.ctx
        if isinstance(t, ast.Name):
            ctx.frame.locals[t.id] = v
        elif isinstance(t, (ast.Tuple, ast.List)):
            items = self.unpack(v, len(t.elts))
            for tt, vv in zip(t.elts, items):
                self.assign(tt, vv)
        elif isinstance(t, ast.Attribute):
            obj = self.ev(t.value)
            self.setattr(obj, t.attr, v)
        elif isinstance(t, ast.Subscript):
            obj = self.ev(t.value)
            idx = self.ev(t.slice)
            models.setitem(self, obj, idx, v)
        else:
            raise Unsupported('assignment target %s' % type(t).__name__)

    def unpack(self, v, n):
        ctx = self.ctx
        if isinstance(v, VTuple):
            items = v.items
            if len(items) != n:
                self.raise_(ValueError)
            return items
        if isinstance(v, VRef):
            c = ctx.cell(v)
            if isinstance(c, ListCell):
                if len(c.items) != n:
                    self.raise_(ValueError)
                return list(c.items)
            if isinstance(c, SeqCell):
                from .values import L_len, L_at
                if not ctx.branch(L_len(c.e) == n):
                    self.raise_(ValueError)
                return [seq_elem(c, L_at(c.e, i)) for i in range(n)]
        raise Unsupported('unpacking %r' % (v,))

    def setattr(self, obj, name, v):
        if isinstance(obj, VRef):
            c = self.ctx.cell(obj)
            if isinstance(c, ObjCell):
                hook = self.engine.setattr_hook(c.cls, name)
                if hook is not None:
                    return hook(self, obj, v)
                c.attrs[name] = v
                return
        if isinstance(obj, VExc):
            obj.attrs[name] = v
            return
        raise Unsupported('attribute store on %r' % (obj,))

    # ------------------------------------------------------------------
    # expressions
    # ------------------------------------------------------------------
    def ev(self, e):
        m = getattr(self, 'ex_' + type(e).__name__, None)
        if m is None:
            raise Unsupported('expression %s at %s' % (
                type(e).__name__, where_of(self.ctx.frame.fi, e)))
        return m(e)

    def ex_Constant(self, e):
        v = e.value
        if v is Ellipsis:
            raise Unsupported('Ellipsis')
        return from_py(v)

    def ex_Name(self, e):
        fr = self.ctx.frame
        if e.id in fr.locals:
            return fr.locals[e.id]
        if e.id in fr.fi_assigned:
            self.raise_(UnboundLocalError)
        return self.engine.lookup_global(self, fr, e.id)

    def ex_Tuple(self, e):
        return VTuple([self.ev(x) for x in e.elts])

    def ex_List(self, e):
        return self.ctx.alloc(ListCell([self.ev(x) for x in e.elts]))

    def ex_Set(self, e):
        items = [self.ev(x) for x in e.elts]
        return VTuple(items)  # only used for membership tests

    def ex_Dict(self, e):
        d = DictCell()
        for k, v in zip(e.keys, e.values):
            if k is None:
                raise Unsupported('dict ** display')
            kv = self.ev(k)
            d.items[models.const_key(kv)] = self.ev(v)
        return self.ctx.alloc(d)

    def ex_Attribute(self, e):
        obj = self.ev(e.value)
        return self.getattr(obj, e.attr)

    def getattr(self, obj, name):
        ctx = self.ctx
        if isinstance(obj, VRef) and isinstance(self.ctx.cell(obj),
                                                 StreamCell):
            if name == 'closed':
                return VBool(self.ctx.cell(obj).closed)
            if name not in ('read', 'seek', 'tell', 'write', 'getvalue',
                            'close', 'readline', 'flush', '__enter__',
                            '__exit__'):
                raise Unsupported('stream attribute %s' % name)
        if isinstance(obj, VRef):
            c = ctx.cell(obj)
            if isinstance(c, ObjCell):
                if name in c.attrs:
                    return c.attrs[name]
                return self.engine.class_attr(self, obj, c, name)
            return BoundMethod(obj, name)
        if isinstance(obj, VConc):
            py = obj.py
            mv = models.concrete_attr(self, py, name)
            if mv is not None:
                return mv
            if not hasattr(py, name):
                self.raise_(AttributeError)
            return self.engine.wrap_global(self, getattr(py, name),
                                           owner=py, name=name)
        if isinstance(obj, VExc):
            if name in obj.attrs:
                return obj.attrs[name]
            raise Unsupported('exception attribute %s' % name)
        from .values import VAttrs
        if isinstance(obj, VAttrs):
            if name in obj.attrs:
                return obj.attrs[name]
            raise Unsupported('attribute %s of a library object' % name)
        return BoundMethod(obj, name)

    def ex_Subscript(self, e):
        obj = self.ev(e.value)
        if isinstance(e.slice, ast.Slice):
            lo = self.ev(e.slice.lower) if e.slice.lower else None
            hi = self.ev(e.slice.upper) if e.slice.upper else None
            if e.slice.step is not None:
                raise Unsupported('slice step')
            return models.getslice(self, obj, lo, hi)
        idx = self.ev(e.slice)
        return models.getitem(self, obj, idx)

    def ex_UnaryOp(self, e):
        v = self.ev(e.operand)
        if isinstance(e.op, ast.Not):
            return VBool(z3.Not(truth(self.ctx, v)))
        if isinstance(e.op, ast.USub):
            return VInt(-as_int(v))
        if isinstance(e.op, ast.UAdd):
            return VInt(as_int(v))
        raise Unsupported('unary op')

    def ex_BoolOp(self, e):
        ctx = self.ctx
        if ctx.spec_mode:
            ts = []
            for x in e.values:
                try:
                    t = z3.simplify(truth(ctx, self.ev(x)))
                except (PyRaise, Unsupported):
                    # not evaluable here; fine if an earlier operand
                    # already decides the result on this path
                    if ts and isinstance(e.op, ast.And) and \
                            ctx.decide(z3.And(ts)) is False:
                        return VBool(False)
                    if ts and isinstance(e.op, ast.Or) and \
                            ctx.decide(z3.Or(ts)) is True:
                        return VBool(True)
                    raise
                # concrete short-circuit keeps specifications total
                if isinstance(e.op, ast.And) and z3.is_false(t):
                    return VBool(False)
                if isinstance(e.op, ast.Or) and z3.is_true(t):
                    return VBool(True)
                ts.append(t)
            if isinstance(e.op, ast.And):
                return VBool(z3.And(ts))
            return VBool(z3.Or(ts))
        # Python semantics: value of the deciding operand
        v = None
        for i, x in enumerate(e.values):
            v = self.ev(x)
            if i == len(e.values) - 1:
                return v
            t = to_bool(ctx, v)
            if isinstance(e.op, ast.And) and not t:
                return v
            if isinstance(e.op, ast.Or) and t:
                return v
        return v

    def ex_IfExp(self, e):
        ctx = self.ctx
        c = self.ev(e.test)
        if ctx.spec_mode:
            t = z3.simplify(truth(ctx, c))
            if z3.is_true(t):
                return self.ev(e.body)
            if z3.is_false(t):
                return self.ev(e.orelse)
            a = self.ev(e.body)
            b = self.ev(e.orelse)
            return models.ite(self, t, a, b)
        if to_bool(ctx, c):
            return self.ev(e.body)
        return self.ev(e.orelse)

    def ex_Compare(self, e):
        ctx = self.ctx
        left = self.ev(e.left)
        conj = []
        for op, right_e in zip(e.ops, e.comparators):
            right = self.ev(right_e)
            c = self.compare(op, left, right)
            if len(e.ops) == 1:
                return VBool(c)
            if not ctx.spec_mode:
                if not ctx.branch(c):
                    return VBool(False)
            else:
                conj.append(c)
            left = right
        if ctx.spec_mode:
            return VBool(z3.And(conj))
        return VBool(True)

    def compare(self, op, a, b):
        ctx = self.ctx
        if isinstance(op, ast.Eq):
            return eq(ctx, a, b)
        if isinstance(op, ast.NotEq):
            return z3.Not(eq(ctx, a, b))
        if isinstance(op, ast.Is):
            return self.is_(a, b)
        if isinstance(op, ast.IsNot):
            return z3.Not(self.is_(a, b))
        if isinstance(op, ast.In):
            return models.contains(self, b, a)
        if isinstance(op, ast.NotIn):
            return z3.Not(models.contains(self, b, a))
        if ctx.spec_mode:
            # specifications compare boxed values as the integers they hold
            if isinstance(a, VBox):
                a = VInt(Val.ival(a.e))
            if isinstance(b, VBox):
                b = VInt(Val.ival(b.e))
        if isinstance(a, VBox) or isinstance(b, VBox):
            a = unbox_choose(ctx, a)
            b = unbox_choose(ctx, b)
        if isinstance(a, (VInt, VBool)) and isinstance(b, (VInt, VBool)):
            x, y = as_int(a), as_int(b)
            if isinstance(op, ast.Lt):
                return x < y
            if isinstance(op, ast.LtE):
                return x <= y
            if isinstance(op, ast.Gt):
                return x > y
            if isinstance(op, ast.GtE):
                return x >= y
        if isinstance(a, (VInt, VBool, VStr)) or a is VNone:
            if isinstance(b, (VInt, VBool, VStr)) or b is VNone:
                if type(a) is not type(b) or (
                        isinstance(a, VStr) and a.b != b.b):
                    self.raise_(TypeError)
        raise Unsupported('comparison %s on %r, %r' % (
            type(op).__name__, a, b))

    def is_(self, a, b):
        if isinstance(a, VBox) or isinstance(b, VBox):
            other = b if isinstance(a, VBox) else a
            bx = a if isinstance(a, VBox) else b
            if other is VNone:
                return Val.is_NoneV(bx.e)
            raise Unsupported('is on boxed values')
        if a is VNone or b is VNone:
            return z3.BoolVal(a is b)
        if isinstance(a, VRef) and isinstance(b, VRef):
            return z3.BoolVal(a.ref == b.ref)
        if isinstance(a, VBool) and isinstance(b, VBool):
            return a.e == b.e
        if isinstance(a, VConc) and isinstance(b, VConc):
            return z3.BoolVal(a.py is b.py)
        if type(a) is not type(b):
            return z3.BoolVal(False)
        raise Unsupported('is on %r, %r' % (a, b))

    def ex_BinOp(self, e):
        a = self.ev(e.left)
        b = self.ev(e.right)
        return self.binop(e.op, a, b, e)

    def binop(self, op, a, b, node):
        return models.binop(self, op, a, b, node)

    def ex_JoinedStr(self, e):
        raise Unsupported('f-string')

    def ex_Lambda(self, e):
        return VConc(('lambda', e))

    def ex_ListComp(self, e):
        return models.comprehension(self, e, 'list')

    def ex_GeneratorExp(self, e):
        return models.comprehension(self, e, 'gen')

    def ex_DictComp(self, e):
        return models.dict_comprehension(self, e)

    def ex_Yield(self, e):
        v = self.ev(e.value) if e.value is not None else VNone
        self.engine.on_yield(self, v)
        return VNone

    def ex_Call(self, e):
        if self.ctx.spec_mode and isinstance(e.func, ast.Name) and \
                e.func.id == 'old':
            try:
                return self.ctx.old_vals[id(e)]
            except KeyError:
                raise Unsupported('old() outside a post-condition')
        if self.ctx.spec_mode and isinstance(e.func, ast.Name) and \
                e.func.id == 'implies' and len(e.args) == 2:
            # lazy: the consequent is not evaluated under a false antecedent
            a0 = truth(self.ctx, self.ev(e.args[0]))
            a0 = z3.simplify(a0)
            if z3.is_false(a0):
                return VBool(True)
            try:
                return VBool(z3.Implies(
                    a0, truth(self.ctx, self.ev(e.args[1]))))
            except (PyRaise, Unsupported):
                # the consequent is not evaluable in this state (e.g. an
                # unbound local); fine if the antecedent is false here
                if self.ctx.decide(a0) is False:
                    return VBool(True)
                raise
        fn = self.ev(e.func)
        args = []
        for a in e.args:
            if isinstance(a, ast.Starred):
                raise Unsupported('*args call')
            args.append(self.ev(a))
        kwargs = {}
        for kw in e.keywords:
            if kw.arg is None:
                d = self.ev(kw.value)
                c = self.ctx.cell(d) if isinstance(d, VRef) else None
                if not isinstance(c, DictCell) or c.sym is not None:
                    raise Unsupported('** of non-record dict')
                for k, v in c.items.items():
                    if not isinstance(k, str):
                        self.raise_(TypeError)
                    kwargs[k] = v
            else:
                kwargs[kw.arg] = self.ev(kw.value)
        return self.call(fn, args, kwargs, e)

    def call(self, fn, args, kwargs, node=None):
        self.ctx.frame.call_ord += 1
        if isinstance(fn, VFunc):
            return fn.fn(self, args, kwargs)
        if isinstance(fn, BoundMethod):
            return models.call_method(self, fn.recv, fn.name, args, kwargs)
        if isinstance(fn, VConc):
            return models.call_concrete(self, fn.py, args, kwargs)
        raise Unsupported('call of %r' % (fn,))


def _load(t):
    import copy
    t2 = copy.deepcopy(t)
    for n in ast.walk(t2):
        if hasattr(n, 'ctx'):
            n.ctx = ast.Load()
    return t2


def assigned_names(stmts):
    """Names syntactically assigned in a block (for havoc / unbound checks)."""
    out = set()

    class Vis(ast.NodeVisitor):
        def visit_Name(self, n):
            if isinstance(n.ctx, (ast.Store, ast.Del)):
                out.add(n.id)

        def visit_ExceptHandler(self, n):
            if n.name:
                out.add(n.name)
            self.generic_visit(n)

        def visit_FunctionDef(self, n):
            out.add(n.name)

        def visit_Lambda(self, n):
            pass

        def visit_ListComp(self, n):
            pass

        def visit_GeneratorExp(self, n):
            pass

        def visit_DictComp(self, n):
            pass

        def visit_SetComp(self, n):
            pass
    v = Vis()
    for s in stmts:
        v.visit(s)
    return out
